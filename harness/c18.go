package main

import (
	"github.com/go-i2p/common/encrypted_leaseset"
	"go.step.sm/crypto/x25519"
	"bytes"
	"fmt"
	"reflect"
	"sort"
	"strings"
	"sync"
	"unsafe"

	"github.com/go-i2p/common/data"
	"github.com/go-i2p/common/key_certificate"
	"github.com/go-i2p/common/lease_set2"
	"github.com/go-i2p/common/router_address"
	"github.com/go-i2p/common/router_info"
)

func init() { props["C18"] = runC18 }

// deepDump serialises everything reachable from v, INCLUDING the spare capacity of every
// slice (s[len:cap]) and unexported fields: a read-only operation must leave it unchanged.
func deepDump(v interface{}) []byte {
	var buf bytes.Buffer
	seen := map[uintptr]bool{}
	var walk func(rv reflect.Value, depth int)
	walk = func(rv reflect.Value, depth int) {
		if depth > 12 {
			return
		}
		switch rv.Kind() {
		case reflect.Ptr:
			if rv.IsNil() {
				buf.WriteString("nil;")
				return
			}
			if seen[rv.Pointer()] {
				buf.WriteString("seen;")
				return
			}
			seen[rv.Pointer()] = true
			walk(rv.Elem(), depth+1)
		case reflect.Interface:
			if rv.IsNil() {
				buf.WriteString("nil;")
				return
			}
			walk(rv.Elem(), depth+1)
		case reflect.Struct:
			buf.WriteByte('{')
			for i := 0; i < rv.NumField(); i++ {
				f := rv.Field(i)
				if f.CanAddr() {
					f = reflect.NewAt(f.Type(), unsafe.Pointer(f.UnsafeAddr())).Elem()
				}
				walk(f, depth+1)
			}
			buf.WriteByte('}')
		case reflect.Slice:
			if rv.IsNil() {
				buf.WriteString("nilslice;")
				return
			}
			fmt.Fprintf(&buf, "len%d cap%d[", rv.Len(), rv.Cap())
			full := rv.Slice3(0, rv.Cap(), rv.Cap())
			if rv.Type().Elem().Kind() == reflect.Uint8 {
				fmt.Fprintf(&buf, "%x", full.Bytes())
			} else {
				for i := 0; i < full.Len(); i++ {
					walk(full.Index(i), depth+1)
				}
			}
			buf.WriteByte(']')
		case reflect.Array:
			for i := 0; i < rv.Len(); i++ {
				walk(rv.Index(i), depth+1)
			}
		case reflect.Map:
			keys := rv.MapKeys()
			sort.Slice(keys, func(i, j int) bool { return fmt.Sprint(keys[i]) < fmt.Sprint(keys[j]) })
			for _, k := range keys {
				fmt.Fprintf(&buf, "%v:", k)
				walk(rv.MapIndex(k), depth+1)
			}
		case reflect.String:
			buf.WriteString(rv.String())
			buf.WriteByte(';')
		case reflect.Bool:
			fmt.Fprintf(&buf, "%v;", rv.Bool())
		case reflect.Int, reflect.Int8, reflect.Int16, reflect.Int32, reflect.Int64:
			fmt.Fprintf(&buf, "%d;", rv.Int())
		case reflect.Uint, reflect.Uint8, reflect.Uint16, reflect.Uint32, reflect.Uint64, reflect.Uintptr:
			fmt.Fprintf(&buf, "%d;", rv.Uint())
		default:
			buf.WriteString(rv.Kind().String())
		}
	}
	walk(reflect.ValueOf(v), 0)
	return buf.Bytes()
}

// package-level tables that read-only operations consult
func globalsDump() []byte {
	return deepDump([]interface{}{&key_certificate.SigningKeySizes, &key_certificate.CryptoKeySizes, &key_certificate.CryptoPublicKeySizes, &key_certificate.SignaturePublicKeySizes})
}

var mutatorMethods = map[string]bool{"SetBytes": true, "AddAddress": true, "Add": true, "WithType": true, "WithKeyTypes": true, "WithPayload": true, "Build": true}

// read-only calls on a value: every exported argument-free method that is not a mutator,
// plus the binary comparisons against itself
func readOnlyCalls(v interface{}) []string {
	var names []string
	rv := reflect.ValueOf(v)
	t := rv.Type()
	for i := 0; i < t.NumMethod(); i++ {
		m := t.Method(i)
		if mutatorMethods[m.Name] {
			continue
		}
		if m.Type.NumIn() == 1 {
			names = append(names, m.Name)
		}
		// comparisons (Equals(other), Equal(other)): read-only operations with one argument of
		// the receiver's own type; they are called with the shared value itself as argument
		if m.Type.NumIn() == 2 && selfArg(rv, m.Type.In(1)).IsValid() {
			names = append(names, m.Name+"@self")
		}
	}
	if _, ok := c18DecryptArgs(v); ok {
		names = append(names, "DecryptInnerData@key", "DecryptInnerData@wrongkey")
	}
	return names
}

// selfArg converts the shared value to the parameter type want (T, *T), or returns the zero Value
func selfArg(rv reflect.Value, want reflect.Type) reflect.Value {
	if rv.Type() == want {
		return rv
	}
	if rv.Kind() == reflect.Ptr && !rv.IsNil() && rv.Type().Elem() == want {
		return rv.Elem()
	}
	if want.Kind() == reflect.Ptr && want.Elem() == rv.Type() && rv.CanAddr() {
		return rv.Addr()
	}
	return reflect.Value{}
}

// read-only operations that take arguments the harness must supply: decrypting an EncryptedLeaseSet
// with the matching (and with another) key asks a question of the value, it does not change it
var c18Decrypt = map[*encrypted_leaseset.EncryptedLeaseSet][2]interface{}{} // value -> {cookie, private key}

func c18DecryptArgs(v interface{}) ([2]interface{}, bool) {
	p, ok := v.(*encrypted_leaseset.EncryptedLeaseSet)
	if !ok {
		return [2]interface{}{}, false
	}
	a, ok := c18Decrypt[p]
	return a, ok
}

func callRendered(v interface{}, name string) (out string) {
	defer func() {
		if r := recover(); r != nil {
			out = "panic"
		}
	}()
	if name == "DecryptInnerData@key" || name == "DecryptInnerData@wrongkey" {
		a, _ := c18DecryptArgs(v)
		key := a[1]
		if name == "DecryptInnerData@wrongkey" {
			_, wrong, _ := x25519.GenerateKey(detRand{&Rng{99}})
			key = wrong
		}
		res := reflect.ValueOf(v).MethodByName("DecryptInnerData").Call([]reflect.Value{reflect.ValueOf(a[0]), reflect.ValueOf(key)})
		var sb strings.Builder
		if !res[0].IsNil() {
			b, _ := res[0].Interface().(*lease_set2.LeaseSet2).Bytes()
			sb.WriteString(hx(b))
		}
		sb.WriteByte('|')
		sb.WriteString(fmt.Sprint(res[1].IsNil()))
		return sb.String()
	}
	var args []reflect.Value
	if strings.HasSuffix(name, "@self") {
		name = strings.TrimSuffix(name, "@self")
		m := reflect.ValueOf(v).MethodByName(name)
		args = []reflect.Value{selfArg(reflect.ValueOf(v), m.Type().In(0))}
	}
	res := reflect.ValueOf(v).MethodByName(name).Call(args)
	var sb strings.Builder
	for _, o := range res {
		render(&sb, o, 0)
		sb.WriteByte('|')
	}
	return sb.String()
}

func clockDependent(name string) bool {
	return name == "IsExpired" || name == "String" || name == "Validate" || name == "IsValid"
}

func runC18(c *Ctx) {
	r := c.R
	type shared struct {
		name string
		val  interface{}
		in   []byte
	}
	var values []shared
	for i := range parsers {
		p := &parsers[i]
		for k := 0; k < c.N(6, 120); k++ {
			w := p.Gen(r)
			if (p.Name == "ReadMapping" || p.Name == "ReadRouterAddress") && k%3 == 1 {
				// many pairs (thresholds at 8/16/32 entries are common), in arbitrary wire order
				kvs := []KV{{[]byte("host"), []byte("192.0.2.7")}, {[]byte("port"), []byte("1234")}, {[]byte("caps"), []byte("BC")}}
				for n := 17 + r.Intn(30); len(kvs) < n; {
					kvs = append(kvs, KV{[]byte(fmt.Sprintf("opt%d", len(kvs)*7919%1000)), r.Bytes(r.Intn(5))})
				}
				for a := len(kvs) - 1; a > 0; a-- {
					b := r.Intn(a + 1)
					kvs[a], kvs[b] = kvs[b], kvs[a]
				}
				w = encodeMapping(kvs)
				if p.Name == "ReadRouterAddress" {
					w = RouterAddrV{Cost: 3, Style: []byte("SSU2"), Opts: kvs}.Encode()
				}
			} else if p.Name == "ReadMapping" && k%2 == 0 {
				// unsorted but well-formed mappings (a parsed value keeps the wire order)
				kvs := genKVs(r, 6)
				for a := len(kvs) - 1; a > 0; a-- {
					b := r.Intn(a + 1)
					kvs[a], kvs[b] = kvs[b], kvs[a]
				}
				w = encodeMapping(kvs)
			}
			if k%4 == 3 {
				// a mapping whose declared size covers 1-5 trailing bytes that form no pair (accepted
				// by the parser: recorded finding D2): a value in a state no constructor produces
				junk := [][]byte{{0xde}, {0xde, 0xad}, {1, 'k', '='}, {0, 0, 0, 0}, {0xde, 0xad, 0xbe, 0xef, 0x01}}[r.Intn(5)]
				switch p.Name {
				case "ReadMapping":
					w = withSlack(encodeMapping(genKVs(r, 4)), 0, junk)
				case "ReadRouterAddress":
					a := genRouterAddr(r)
					e := a.Encode()
					w = withSlack(e, len(e)-len(encodeMapping(a.Opts)), junk)
				case "ReadLeaseSet2":
					l := genLeaseSet2(r)
					e := l.Encode()
					h := l.H.Encode()
					w = withSlack(e, len(h)-len(encodeMapping(l.H.Options)), junk)
				case "ReadRouterInfo":
					ri := genRouterInfo(r)
					e := ri.Encode()
					w = withSlack(e, len(e)-len(ri.Sig)-len(encodeMapping(ri.Opts)), junk)
				}
			}
			if p.Name == "ReadLeaseSet" && k%3 == 2 {
				// leases with a null end date (legal on the wire) and with equal end dates among dated ones
				ls := genLeaseSet(r)
				for len(ls.Leases) < 4 {
					ls.Leases = append(ls.Leases, genLease(r))
				}
				copy(ls.Leases[1][36:], make([]byte, 8))
				copy(ls.Leases[3][36:], ls.Leases[2][36:])
				w = ls.Encode()
			}
			var extra [][]byte
			if p.Extra != nil {
				extra = p.Extra(r)
			}
			// parsed by the library's reader directly, so that the frame check below sees the value
			// before ANY method has been called on it (the table's Run serialises the value at once)
			switch {
			case k%4 == 3 && p.Name == "ReadMapping":
				if m, _, errs := data.ReadMapping(cp(w)); !mappingFatal(errs) {
					values = append(values, shared{p.Name + "(fresh)", &m, w})
				}
			case k%4 == 3 && p.Name == "ReadRouterAddress":
				if a, _, err := router_address.ReadRouterAddress(cp(w)); err == nil {
					values = append(values, shared{p.Name + "(fresh)", &a, w})
				}
			case k%4 == 3 && p.Name == "ReadLeaseSet2":
				if l, _, err := lease_set2.ReadLeaseSet2(cp(w)); err == nil {
					values = append(values, shared{p.Name + "(fresh)", &l, w})
				}
			case k%4 == 3 && p.Name == "ReadRouterInfo":
				if ri, _, err := router_info.ReadRouterInfo(cp(w)); err == nil {
					values = append(values, shared{p.Name + "(fresh)", &ri, w})
				}
			}
			res := p.Run(cp(w), extra)
			if res.OK && res.Val != nil {
				values = append(values, shared{p.Name, res.Val, w})
			}
		}
	}
	// an EncryptedLeaseSet whose inner data really is an encrypted LeaseSet2, with the key to it
	for k := 0; k < 2; k++ {
		l := genLeaseSet2(r)
		ls, _, err := lease_set2.ReadLeaseSet2(l.Encode())
		if err != nil {
			continue
		}
		pub, priv, _ := x25519.GenerateKey(detRand{r})
		var cookie [32]byte
		copy(cookie[:], r.Bytes(32))
		enc, eerr := encrypted_leaseset.EncryptInnerLeaseSet2(&ls, cookie, pub)
		if eerr != nil {
			continue
		}
		ek := genEd(r)
		els, nerr := encrypted_leaseset.NewEncryptedLeaseSet(7, cp(ek.pub), 1, 1, 0, nil, cp(enc), stdPriv(ek))
		if nerr != nil {
			continue
		}
		c18Decrypt[els] = [2]interface{}{cookie[:], priv}
		values = append(values, shared{"NewEncryptedLeaseSet(encrypted LeaseSet2)", els, enc})
	}
	// constructed values too
	if m, err := data.GoMapToMapping(map[string]string{"b": "1", "a": "2", "z": ""}); err == nil {
		values = append(values, shared{"GoMapToMapping", m, nil})
	}
	for _, sv := range values {
		calls := readOnlyCalls(sv.val)
		// (i) frame check, sequential: nothing reachable from the value (spare capacity
		// included) and no package-level table changes; a second call returns the same result
		g0 := globalsDump()
		for _, name := range calls {
			before := deepDump(sv.val)
			first := callRendered(sv.val, name)
			after := deepDump(sv.val)
			c.Check("read_only_call_leaves_receiver_unchanged", bytes.Equal(before, after), sv.name+"."+name, [][]byte{sv.in}, "", "the receiver (or memory reachable from it) changed")
			if !clockDependent(name) {
				second := callRendered(sv.val, name)
				c.Check("read_only_call_is_repeatable", first == second, sv.name+"."+name, [][]byte{sv.in}, "", "a second call returned a different result")
			}
		}
		c.Check("read_only_calls_leave_globals_unchanged", bytes.Equal(g0, globalsDump()), sv.name, [][]byte{sv.in}, "", "a package-level table changed")
		// Bytes() of the value after all read-only calls still equals the parsed serialisation
		// (ii) N goroutines x all read-only calls on the one shared value: same results as alone
		alone := map[string]string{}
		for _, name := range calls {
			if !clockDependent(name) {
				alone[name] = callRendered(sv.val, name)
			}
		}
		var wg sync.WaitGroup
		var mu sync.Mutex
		diffs := []string{}
		for g := 0; g < 6; g++ {
			wg.Add(1)
			go func(g int) {
				defer wg.Done()
				order := append([]string(nil), calls...)
				// each goroutine walks the calls in a different rotation
				for k := 0; k < len(order); k++ {
					name := order[(k+g*3)%len(order)]
					if clockDependent(name) {
						callRendered(sv.val, name)
						continue
					}
					if got := callRendered(sv.val, name); got != alone[name] {
						mu.Lock()
						diffs = append(diffs, name)
						mu.Unlock()
					}
				}
			}(g)
		}
		wg.Wait()
		// (iii) the serialisers and verifiers again, many times from every goroutine at once: scratch
		// memory shared between calls (a pooled or cached buffer) shows up here as a wrong result and,
		// in the race-detector build, as a reported race
		var hot []string
		for _, name := range calls {
			switch name {
			case "Bytes", "Data", "Verify", "VerifySignature", "RawBytes", "Hash", "IdentHash", "Base32Address", "Base64", "DecryptInnerData@key", "DecryptInnerData@wrongkey":
				if !clockDependent(name) {
					hot = append(hot, name)
				}
			}
		}
		if len(hot) > 0 {
			for g := 0; g < 6; g++ {
				wg.Add(1)
				go func(g int) {
					defer wg.Done()
					for it := 0; it < 12; it++ {
						name := hot[(it+g)%len(hot)]
						if got := callRendered(sv.val, name); got != alone[name] {
							mu.Lock()
							diffs = append(diffs, name)
							mu.Unlock()
						}
					}
				}(g)
			}
			wg.Wait()
		}
		c.Check("concurrent_results_equal_sequential", len(diffs) == 0, sv.name, [][]byte{sv.in}, "", fmt.Sprintf("calls whose concurrent result differed: %v", diffs))
		c.OracleN["shared_values"]++
	}
	// the model side of C18 is a static fact (Props/C18.v over the regenerated effect summary);
	// the correspondence cases below only record that the shared values were parsed as modelled
	for i := range parsers {
		p := &parsers[i]
		w := p.Gen(r)
		var extra [][]byte
		if p.Extra != nil {
			extra = p.Extra(r)
		}
		runParser(c, p, w, extra)
	}
}

// withSlack: w with the mapping at offset off enlarged by the junk bytes (size field raised,
// junk placed after the mapping's pairs)
func withSlack(w []byte, off int, junk []byte) []byte {
	if off < 0 || off+2 > len(w) {
		return w
	}
	size := int(w[off])<<8 | int(w[off+1])
	end := off + 2 + size
	if end > len(w) || size+len(junk) > 65535 {
		return w
	}
	return cat(w[:off], u16(size+len(junk)), w[off+2:end], junk, w[end:])
}
