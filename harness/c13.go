package main

import (
	"bytes"
	"fmt"
	"strings"

	"github.com/go-i2p/common/base32"
	"github.com/go-i2p/common/base64"
)

func init() { props["C13"] = runC13 }

const alpha32 = "abcdefghijklmnopqrstuvwxyz234567"
const alpha64 = "ABCDEFGHIJKLMNOPQRSTUVWXYZabcdefghijklmnopqrstuvwxyz0123456789-~"

// independent bit-level encoders
func bitEncode(x []byte, bits uint, alphabet string, padTo int, pad bool) string {
	var sb strings.Builder
	var acc uint
	var n uint
	for _, b := range x {
		acc = acc<<8 | uint(b)
		n += 8
		for n >= bits {
			n -= bits
			sb.WriteByte(alphabet[(acc>>n)&(1<<bits-1)])
		}
	}
	if n > 0 {
		sb.WriteByte(alphabet[(acc<<(bits-n))&(1<<bits-1)])
	}
	if pad {
		for sb.Len()%padTo != 0 {
			sb.WriteByte('=')
		}
	}
	return sb.String()
}

func obsDecode(b []byte, err error) Obs {
	if err != nil {
		return ERR()
	}
	return OK(b)
}

func c13Encode(c *Ctx, x []byte) {
	var e32, e32n, e64 string
	c.Case(E_B32Encode, [][]byte{x}, func() Obs { e32 = base32.EncodeToString(x); return OK([]byte(e32)) })
	c.Case(E_B32EncodeNoPad, [][]byte{x}, func() Obs { e32n = base32.EncodeToStringNoPadding(x); return OK([]byte(e32n)) })
	c.Case(E_B64Encode, [][]byte{x}, func() Obs { e64 = base64.EncodeToString(x); return OK([]byte(e64)) })
	ok := e32 == bitEncode(x, 5, alpha32, 8, true) && e32n == bitEncode(x, 5, alpha32, 8, false) && e64 == bitEncode(x, 6, alpha64, 4, true)
	c.Check("encoding_matches_bit_level", ok, "EncodeToString", [][]byte{x}, "", fmt.Sprintf("len %d", len(x)))
	for _, ch := range []byte(e32 + e32n) {
		if !strings.ContainsRune(alpha32+"=", rune(ch)) {
			ok = false
		}
	}
	for _, ch := range []byte(e64) {
		if !strings.ContainsRune(alpha64+"=", rune(ch)) {
			ok = false
		}
	}
	c.Check("encoding_uses_only_alphabet", ok, "EncodeToString", [][]byte{x}, "", "foreign character in output")
	d32, err1 := base32.DecodeString(e32)
	d32n, err2 := base32.DecodeStringNoPadding(e32n)
	d64, err3 := base64.DecodeString(e64)
	rt := err1 == nil && err2 == nil && err3 == nil && bytes.Equal(d32, x) && bytes.Equal(d32n, x) && bytes.Equal(d64, x)
	c.Check("decode_encode_identity", rt, "DecodeString(EncodeToString(x))", [][]byte{x}, "", fmt.Sprintf("len %d errs %v %v %v", len(x), err1, err2, err3))
	// with CR/LF interleaved
	if len(e32) > 3 {
		nl := func(s string) string { i := 1 + len(s)/3; return s[:i] + "\r\n" + s[i:] + "\n" }
		a, ea := base32.DecodeString(nl(e32))
		b, eb := base32.DecodeStringNoPadding(nl(e32n))
		cc, ec := base64.DecodeString(nl(e64))
		c.Check("newlines_skipped", ea == nil && eb == nil && ec == nil && bytes.Equal(a, x) && bytes.Equal(b, x) && bytes.Equal(cc, x), "DecodeString with CR/LF", [][]byte{[]byte(nl(e32))}, "", "CR/LF not skipped")
	}
}

func c13Decode(c *Ctx, s []byte) {
	var ok32, ok32n, ok64 bool
	c.Case(E_B32Decode, [][]byte{s}, func() Obs { b, err := base32.DecodeString(string(s)); ok32 = err == nil; return obsDecode(b, err) })
	c.Case(E_B32DecodeNoPad, [][]byte{s}, func() Obs {
		b, err := base32.DecodeStringNoPadding(string(s))
		ok32n = err == nil
		return obsDecode(b, err)
	})
	c.Case(E_B64Decode, [][]byte{s}, func() Obs { b, err := base64.DecodeString(string(s)); ok64 = err == nil; return obsDecode(b, err) })
	var okS32, okS32n, okS64 bool
	c.Case(E_B32DecodeSafe, [][]byte{s}, func() Obs { b, err := base32.DecodeStringSafe(string(s)); okS32 = err == nil; return obsDecode(b, err) })
	c.Case(E_B32DecodeSafeNoPad, [][]byte{s}, func() Obs {
		b, err := base32.DecodeStringSafeNoPadding(string(s))
		okS32n = err == nil
		return obsDecode(b, err)
	})
	c.Case(E_B64DecodeSafe, [][]byte{s}, func() Obs { b, err := base64.DecodeStringSafe(string(s)); okS64 = err == nil; return obsDecode(b, err) })
	// inside their documented limits the size-guarded variants are the plain decoders
	if len(s) > 0 {
		same := func(name string, limit int, plain, safe func(string) ([]byte, error)) {
			if len(s) > limit {
				return
			}
			pb, pe := plain(string(s))
			sb, se := safe(string(s))
			c.Check("safe_variant_is_plain_within_limits", (pe == nil) == (se == nil) && (pe != nil || bytes.Equal(pb, sb)), name, [][]byte{s}, "",
				fmt.Sprintf("plain decoder error=%v, size-guarded variant error=%v", pe, se))
		}
		same("base32.DecodeStringSafe", base32.MAX_DECODE_SIZE, base32.DecodeString, base32.DecodeStringSafe)
		same("base32.DecodeStringSafeNoPadding", base32.MAX_DECODE_SIZE, base32.DecodeStringNoPadding, base32.DecodeStringSafeNoPadding)
		same("base64.DecodeStringSafe", base64.MAX_DECODE_SIZE, base64.DecodeString, base64.DecodeStringSafe)
	}
	// the size-guarded variants accept no more than the plain decoders
	ok32, ok32n, ok64 = ok32 || okS32, ok32n || okS32n, ok64 || okS64
	// only the alphabet (plus CR/LF, plus '=' where padding is used) is ever accepted
	foreign := func(alpha string, padOK bool) bool {
		for _, ch := range s {
			if ch == '\r' || ch == '\n' || (padOK && ch == '=') {
				continue
			}
			if !strings.ContainsRune(alpha, rune(ch)) || ch >= 0x80 {
				return true
			}
		}
		return false
	}
	c.Check("foreign_character_rejected", !(ok32 && foreign(alpha32, true)) && !(ok32n && foreign(alpha32, false)) && !(ok64 && foreign(alpha64, true)),
		"DecodeString", [][]byte{s}, "", fmt.Sprintf("accepted: b32=%v b32nopad=%v b64=%v", ok32, ok32n, ok64))
	// malformed padding: '=' anywhere but in one trailing run of a legal length
	stripped := strings.NewReplacer("\r", "", "\n", "").Replace(string(s))
	if i := strings.IndexByte(stripped, '='); i >= 0 {
		tail := stripped[i:]
		allPad := strings.Trim(tail, "=") == ""
		legal32 := allPad && len(stripped)%8 == 0 && map[int]bool{1: true, 3: true, 4: true, 6: true}[len(tail)]
		legal64 := allPad && len(stripped)%4 == 0 && (len(tail) == 1 || len(tail) == 2)
		// Go's decoders additionally tolerate surplus '=' directly after a complete padded
		// quantum in base32 (e.g. nine '='); anything else must be rejected
		surplus32 := allPad && i%8 >= 2 && len(stripped) > (i/8+1)*8 && map[int]bool{2: true, 4: true, 5: true, 7: true}[i%8]
		c.Check("malformed_padding_rejected", !(ok32 && !legal32 && !surplus32) && !(ok64 && !legal64) && !ok32n, "DecodeString", [][]byte{s}, "",
			fmt.Sprintf("padding %q at %d of %d: accepted b32=%v b64=%v nopad=%v", tail, i, len(stripped), ok32, ok64, ok32n))
	}
}

func runC13(c *Ctx) {
	r := c.R
	// exhaustive up to length 2
	c13Encode(c, nil)
	for a := 0; a < 256; a++ {
		c13Encode(c, []byte{byte(a)})
	}
	step := 1
	if c.Tier == "quick" {
		step = 37
	}
	for v := 0; v < 65536; v += step {
		c13Encode(c, []byte{byte(v >> 8), byte(v)})
	}
	for i := 0; i < c.N(400, 20000); i++ {
		n := r.Intn(70)
		if r.Intn(20) == 0 {
			n = 1000 + r.Intn(5000)
		}
		c13Encode(c, r.Bytes(n))
	}
	// every byte value substituted at every position of short encodings
	for _, x := range [][]byte{{0x61}, {1, 2}, {1, 2, 3}, {1, 2, 3, 4}, {1, 2, 3, 4, 5}, {9, 8, 7, 6, 5, 4}} {
		for _, enc := range []string{base32.EncodeToString(x), base32.EncodeToStringNoPadding(x), base64.EncodeToString(x)} {
			for pos := 0; pos < len(enc); pos++ {
				for v := 0; v < 256; v++ {
					if c.Tier == "quick" && v%3 != 0 && v != '=' && v != 0xff && v != '\n' && v != '\r' {
						continue
					}
					m := []byte(enc)
					m[pos] = byte(v)
					c13Decode(c, m)
				}
			}
			// insertions / truncations / appended data
			for pos := 0; pos <= len(enc); pos++ {
				for _, ins := range []string{"=", "a", "A", "\n", "\xff", "==", "!"} {
					c13Decode(c, []byte(enc[:pos]+ins+enc[pos:]))
				}
				c13Decode(c, []byte(enc[:pos]))
			}
		}
	}
	for _, s := range []string{"me======a", "me======", "me=======", "me=========", "aaaaaaaame======", "me======aaaaaaaa", "me\xff\xff\xff\xff\xff\xff", "m", "mee", "meeeee", "QQ==Q", "QQ==QQ==", "QQ=\n=", "QR==", "=", "==", "====", "========", "\n", "\r\n\r\n"} {
		c13Decode(c, []byte(s))
	}
	// every short string over {alphabet char, '!', '=', LF} appended to padded and unpadded bodies
	{
		alpha := []string{"a", "!", "=", "\n"}
		var tails []string
		for _, x := range alpha {
			tails = append(tails, x)
			for _, y := range alpha {
				tails = append(tails, x+y)
				for _, z := range alpha {
					tails = append(tails, x+y+z)
				}
			}
		}
		for _, body := range []string{"me======", "mfrgg===", "mfrggzdf", "mfrggzdfmy======", "QQ==", "QUI=", "QUJD", "me", "mfrgg"} {
			for _, t := range tails {
				c13Decode(c, []byte(body+t))
			}
		}
	}
	// line breaks interleaved with padding and stray data: the decoders skip CR/LF everywhere,
	// so the library's own checks must look through them too
	for _, body := range []string{"me======", "mfrgg===", "mfrggzdf", "QQ==", "QUI=", "QUJD"} {
		for k := 1; k <= 10; k++ {
			nl := strings.Repeat("\r\n", k)[:k]
			for _, stray := range []string{"a", "!!", "=", "me======", ""} {
				c13Decode(c, []byte(body+nl+stray))
				c13Decode(c, []byte(body[:len(body)-1]+nl+body[len(body)-1:]+nl+stray))
				c13Decode(c, []byte(nl+body+nl+nl+stray))
			}
		}
	}
	for i := 0; i < c.N(1500, 50000); i++ {
		n := r.Intn(40)
		s := make([]byte, n)
		for j := range s {
			switch r.Intn(12) {
			case 0:
				s[j] = '='
			case 1:
				s[j] = byte(r.U64())
			case 2:
				s[j] = "\r\n"[r.Intn(2)]
			default:
				if r.Bool() {
					s[j] = alpha32[r.Intn(32)]
				} else {
					s[j] = alpha64[r.Intn(64)]
				}
			}
		}
		c13Decode(c, s)
	}
	// the size-guarded variants at their documented limits
	lim := func(name string, f func() error, want bool) {
		err := f()
		c.Check("size_limit_exact", (err == nil) == want, name, nil, "", fmt.Sprintf("%s: err=%v, expected success=%v", name, err, want))
	}
	big := make([]byte, base32.MAX_ENCODE_SIZE+1)
	lim("base32.EncodeToStringSafe(empty)", func() error { _, e := base32.EncodeToStringSafe(nil); return e }, false)
	lim("base32.EncodeToStringSafe(MAX)", func() error { _, e := base32.EncodeToStringSafe(big[:base32.MAX_ENCODE_SIZE]); return e }, true)
	lim("base32.EncodeToStringSafe(MAX+1)", func() error { _, e := base32.EncodeToStringSafe(big); return e }, false)
	lim("base64.EncodeToStringSafe(empty)", func() error { _, e := base64.EncodeToStringSafe(nil); return e }, false)
	lim("base64.EncodeToStringSafe(MAX)", func() error { _, e := base64.EncodeToStringSafe(big[:base64.MAX_ENCODE_SIZE]); return e }, true)
	lim("base64.EncodeToStringSafe(MAX+1)", func() error { _, e := base64.EncodeToStringSafe(big); return e }, false)
	s32 := strings.Repeat("a", base32.MAX_DECODE_SIZE+8)
	lim("base32.DecodeStringSafe(empty)", func() error { _, e := base32.DecodeStringSafe(""); return e }, false)
	lim("base32.DecodeStringSafe(MAX)", func() error { _, e := base32.DecodeStringSafe(s32[:base32.MAX_DECODE_SIZE]); return e }, true)
	lim("base32.DecodeStringSafe(MAX+8)", func() error { _, e := base32.DecodeStringSafe(s32); return e }, false)
	lim("base32.DecodeStringSafeNoPadding(MAX)", func() error { _, e := base32.DecodeStringSafeNoPadding(s32[:base32.MAX_DECODE_SIZE]); return e }, true)
	lim("base32.DecodeStringSafeNoPadding(MAX+1)", func() error { _, e := base32.DecodeStringSafeNoPadding(s32[:base32.MAX_DECODE_SIZE+1]); return e }, false)
	s64 := strings.Repeat("A", base64.MAX_DECODE_SIZE+4)
	lim("base64.DecodeStringSafe(empty)", func() error { _, e := base64.DecodeStringSafe(""); return e }, false)
	lim("base64.DecodeStringSafe(MAX)", func() error { _, e := base64.DecodeStringSafe(s64[:base64.MAX_DECODE_SIZE]); return e }, true)
	lim("base64.DecodeStringSafe(MAX+4)", func() error { _, e := base64.DecodeStringSafe(s64); return e }, false)
	// limit-size output equals the unguarded functions' output
	e1, _ := base32.EncodeToStringSafe(big[:base32.MAX_ENCODE_SIZE])
	c.Check("size_limit_exact", e1 == base32.EncodeToString(big[:base32.MAX_ENCODE_SIZE]), "EncodeToStringSafe at MAX", nil, "", "differs from EncodeToString")
	// the limits fit together: what the guarded encoder produces at its own limit (and one byte
	// below) is within the guarded decoders' limit and decodes back; and the limits are the
	// documented numbers (10 MiB of data; its encoded length), whatever the constants say
	c.Check("size_limit_exact", base32.MAX_ENCODE_SIZE == 10*1024*1024 && base64.MAX_ENCODE_SIZE == 10*1024*1024 &&
		base32.MAX_DECODE_SIZE == (10*1024*1024*8+4)/5 && base64.MAX_DECODE_SIZE == ((10*1024*1024+2)/3)*4, "documented limits", nil, "",
		fmt.Sprintf("base32 %d/%d base64 %d/%d", base32.MAX_ENCODE_SIZE, base32.MAX_DECODE_SIZE, base64.MAX_ENCODE_SIZE, base64.MAX_DECODE_SIZE))
	for _, n := range []int{base32.MAX_ENCODE_SIZE, base32.MAX_ENCODE_SIZE - 1} {
		enc, err := base32.EncodeToStringSafe(big[:n])
		dec, derr := base32.DecodeStringSafe(enc)
		c.Check("size_limit_exact", err == nil && derr == nil && len(dec) == n, "base32 Safe round trip at the limit", [][]byte{i64(int64(n))}, "",
			fmt.Sprintf("%d bytes: encode err=%v, decode err=%v", n, err, derr))
		np := strings.TrimRight(enc, "=")
		dec2, derr2 := base32.DecodeStringSafeNoPadding(np)
		c.Check("size_limit_exact", derr2 == nil && len(dec2) == n, "base32 SafeNoPadding round trip at the limit", [][]byte{i64(int64(n))}, "",
			fmt.Sprintf("%d bytes: decode err=%v", n, derr2))
		enc64, err64 := base64.EncodeToStringSafe(big[:n])
		dec64, derr64 := base64.DecodeStringSafe(enc64)
		c.Check("size_limit_exact", err64 == nil && derr64 == nil && len(dec64) == n, "base64 Safe round trip at the limit", [][]byte{i64(int64(n))}, "",
			fmt.Sprintf("%d bytes: encode err=%v, decode err=%v", n, err64, derr64))
	}
}
