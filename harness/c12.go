package main

import (
	"bytes"
	"encoding/binary"
	"fmt"
	"math"
	"time"

	"github.com/go-i2p/common/data"
)

func init() { props["C12"] = runC12 }

func beBytes(v uint64, n int) []byte {
	b := make([]byte, n)
	for i := n - 1; i >= 0; i-- {
		b[i] = byte(v)
		v >>= 8
	}
	return b
}

func c12IntPair(c *Ctx, v int64, size int64) {
	args := [][]byte{i64(v), i64(size)}
	var encA, encB, handedA, handedB []byte
	var errA, errB error
	c.Case(E_NewIntegerFromInt, args, func() Obs {
		i, err := data.NewIntegerFromInt(int(v), int(size))
		errA = err
		if err != nil {
			return ERR()
		}
		encA = append([]byte(nil), i.Bytes()...)
		handedA = i.Bytes()
		return OK(encA)
	})
	c.Case(E_EncodeIntN, args, func() Obs {
		b, err := data.EncodeIntN(int(v), int(size))
		errB = err
		if err != nil {
			return ERR()
		}
		encB = append([]byte(nil), b...)
		handedB = b
		return OK(encB)
	})
	// implementation-side oracle: the property itself
	inDomain := size >= 1 && size <= 8 && v >= 0 && (size == 8 || uint64(v) < (uint64(1)<<(8*uint(size))))
	if inDomain {
		want := beBytes(uint64(v), int(size))
		ok := errA == nil && errB == nil && bytes.Equal(encA, want) && bytes.Equal(encB, want)
		if ok {
			d, err := data.DecodeIntN(encB)
			ok = err == nil && int64(d) == v && int64(data.Integer(encA).Int()) == v
			// every decoder the library offers for the same bytes: the checked ones too
			if ok {
				si, serr := data.Integer(encA).IntSafe()
				su, uerr := data.Integer(encA).UintSafe()
				ok = serr == nil && int64(si) == v && uerr == nil && su == uint64(v)
			}
		}
		c.Check("int_roundtrip", ok, "EncodeIntN", args, "", fmt.Sprintf("v=%d size=%d encA=%x encB=%x errA=%v errB=%v", v, size, encA, encB, errA, errB))
	} else {
		c.Check("int_reject", errA != nil && errB != nil, "EncodeIntN", args, "", fmt.Sprintf("v=%d size=%d accepted: encA=%x encB=%x", v, size, encA, encB))
	}
	// what was handed out is the caller's to write (and to append to): later encodings of any
	// value must not be affected (the sweeps below are repeated at the end of the run)
	scribble(handedA)
	scribble(handedB)
	// ... and the caller may keep them: later calls must not change what was handed out earlier
	c.Hold("NewIntegerFromInt", args, handedA)
	c.Hold("EncodeIntN", args, handedB)
}

func runC12(c *Ctx) {
	r := c.R
	// --- integers: widths 1 and 2 exhaustively (plus the first out-of-range values)
	for v := int64(-2); v <= 258; v++ {
		c12IntPair(c, v, 1)
	}
	step := int64(1)
	if c.Tier == "quick" {
		step = 7
	}
	for v := int64(0); v <= 65538; v += step {
		c12IntPair(c, v, 2)
	}
	for _, v := range []int64{65534, 65535, 65536, 65537} {
		c12IntPair(c, v, 2)
	}
	// boundaries for every width, and invalid widths
	for size := int64(-1); size <= 10; size++ {
		for _, v := range []int64{0, 1, -1, math.MinInt64, math.MaxInt64, math.MaxInt64 - 1} {
			c12IntPair(c, v, size)
		}
		if size >= 1 && size <= 7 {
			b := int64(1) << (8 * uint(size))
			for _, v := range []int64{b - 2, b - 1, b, b + 1, b >> 1, (b >> 1) - 1} {
				c12IntPair(c, v, size)
			}
		}
	}
	// walking bits: for every width, every single bit k (and bit k with small low bits, with
	// one other bit, and all bits below k): an overflow check must look at every high bit
	for size := int64(1); size <= 8; size++ {
		for k := uint(0); k <= 62; k++ {
			one := int64(1) << k
			for _, v := range []int64{one, one | 0xABCD, one | int64(r.U64()&0xFFFFFF), one - 1, one | (one >> 9), one | (int64(1) << (k / 2))} {
				c12IntPair(c, v, size)
			}
		}
	}
	for _, size := range []int64{math.MinInt64, math.MaxInt64, 1 << 32, 256 + 2, -8} {
		c12IntPair(c, 5, size)
	}
	for i := 0; i < c.N(3000, 200000); i++ {
		size := int64(r.Intn(8) + 1)
		var v int64
		switch r.Intn(4) {
		case 0:
			v = int64(r.U64() >> 1)
		case 1:
			v = int64(r.U64() >> uint(64-8*size+int64(r.Intn(2)))) // around the width
		case 2:
			v = int64(r.U64()) // may be negative
		default:
			v = int64(r.U64() >> uint(r.Intn(64)))
		}
		c12IntPair(c, v, size)
	}
	// --- readers on raw bytes
	for i := 0; i < c.N(3000, 100000); i++ {
		n := r.Intn(13)
		b := r.Bytes(n)
		if r.Intn(3) == 0 && n > 0 {
			b[0] |= 0x80
		}
		if r.Intn(5) == 0 {
			for j := range b {
				b[j] = 0xff
			}
		}
		size := int64(r.Intn(12) - 1)
		c.Case(E_ReadInteger, [][]byte{b, i64(size)}, func() Obs {
			in, rem := data.ReadInteger(b, int(size))
			if size >= 1 && size <= 8 {
				// a complete value is never returned for short input
				c.Check("read_integer_short", !(len(b) < int(size) && len(in) >= int(size)), "ReadInteger", [][]byte{b, i64(size)}, "", "full-width integer from short input")
				if len(b) >= int(size) {
					c.Check("read_integer_frame", bytes.Equal(append(append([]byte{}, in...), rem...), b) && len(in) == int(size), "ReadInteger", [][]byte{b, i64(size)}, "", "consumed+remainder != input")
				}
			}
			return OK(in, rem)
		})
		c.Case(E_IntegerInt, [][]byte{b}, func() Obs { return OK(i64(int64(data.Integer(b).Int()))) })
		c.Case(E_DecodeIntN, [][]byte{b}, func() Obs {
			v, err := data.DecodeIntN(b)
			if err != nil {
				return ERR()
			}
			return OK(i64(int64(v)))
		})
		c.Case(E_IntSafe, [][]byte{b}, func() Obs {
			v, err := data.Integer(b).IntSafe()
			if err != nil {
				return ERR()
			}
			return OK(i64(int64(v)))
		})
		c.Case(E_UintSafe, [][]byte{b}, func() Obs {
			v, err := data.Integer(b).UintSafe()
			if err != nil {
				return ERR()
			}
			if len(b) == 8 {
				c.Check("uint_safe_full_range", v == binary.BigEndian.Uint64(b), "UintSafe", [][]byte{b}, "", fmt.Sprintf("got %d", v))
			}
			return OK(u64b(v))
		})
		c.Case(E_NewIntegerFromBytes, [][]byte{b}, func() Obs {
			v, err := data.NewIntegerFromBytes(b)
			if err != nil {
				return ERR()
			}
			return OK(v.Bytes())
		})
	}
	// --- fixed-width helpers
	fixed := func(v uint64) {
		u16, u32 := uint16(v), uint32(v)
		c.Case(E_EncU16, [][]byte{u64b(uint64(u16))}, func() Obs { x := data.EncodeUint16(u16); return OK(x[:]) })
		c.Case(E_EncU32, [][]byte{u64b(uint64(u32))}, func() Obs { x := data.EncodeUint32(u32); return OK(x[:]) })
		c.Case(E_EncU64, [][]byte{u64b(v)}, func() Obs { x := data.EncodeUint64(v); return OK(x[:]) })
		c.Case(E_EncI16, [][]byte{i64(int64(int16(u16)))}, func() Obs { x := data.EncodeInt16(int16(u16)); return OK(x[:]) })
		c.Case(E_EncI32, [][]byte{i64(int64(int32(u32)))}, func() Obs { x := data.EncodeInt32(int32(u32)); return OK(x[:]) })
		c.Case(E_EncI64, [][]byte{i64(int64(v))}, func() Obs { x := data.EncodeInt64(int64(v)); return OK(x[:]) })
		b2, b4, b8 := beBytes(v, 2), beBytes(v, 4), beBytes(v, 8)
		var a2 [2]byte
		var a4 [4]byte
		var a8 [8]byte
		copy(a2[:], b2)
		copy(a4[:], b4)
		copy(a8[:], b8)
		c.Case(E_DecU16, [][]byte{b2}, func() Obs { return OK(u64b(uint64(data.DecodeUint16(a2)))) })
		c.Case(E_DecU32, [][]byte{b4}, func() Obs { return OK(u64b(uint64(data.DecodeUint32(a4)))) })
		c.Case(E_DecU64, [][]byte{b8}, func() Obs { return OK(u64b(data.DecodeUint64(a8))) })
		c.Case(E_DecI16, [][]byte{b2}, func() Obs { return OK(i64(int64(data.DecodeInt16(a2)))) })
		c.Case(E_DecI32, [][]byte{b4}, func() Obs { return OK(i64(int64(data.DecodeInt32(a4)))) })
		c.Case(E_DecI64, [][]byte{b8}, func() Obs { return OK(i64(data.DecodeInt64(a8))) })
		e2, e4, e8 := data.EncodeUint16(u16), data.EncodeUint32(u32), data.EncodeUint64(v)
		ok := bytes.Equal(e2[:], b2) && bytes.Equal(e4[:], b4) && bytes.Equal(e8[:], b8) &&
			data.DecodeUint16(e2) == u16 && data.DecodeUint32(e4) == u32 && data.DecodeUint64(e8) == v &&
			data.DecodeInt16(data.EncodeInt16(int16(u16))) == int16(u16) &&
			data.DecodeInt32(data.EncodeInt32(int32(u32))) == int32(u32) &&
			data.DecodeInt64(data.EncodeInt64(int64(v))) == int64(v)
		c.Check("fixed_roundtrip", ok, "EncodeUintN", [][]byte{u64b(v)}, "", "fixed-width helper round trip / big-endian")
	}
	for _, v := range []uint64{0, 1, 0x7f, 0x80, 0xff, 0x100, 0x7fff, 0x8000, 0xffff, 0x10000, 0x7fffffff, 0x80000000, 0xffffffff, 1 << 32, 1<<63 - 1, 1 << 63, math.MaxUint64} {
		fixed(v)
	}
	for i := 0; i < c.N(300, 20000); i++ {
		fixed(r.U64() >> uint(r.Intn(64)))
	}
	hashCase := func(b []byte) {
		c.Case(E_ReadHash, [][]byte{b}, func() Obs {
			h, rem, err := data.ReadHash(b)
			c.Check("read_hash_short", !(len(b) < 32 && err == nil), "ReadHash", [][]byte{b}, "", "short input accepted")
			if err != nil {
				return ERR()
			}
			return OK(h[:], rem)
		})
	}
	// --- dates
	for n := 0; n <= 20; n++ {
		for k := 0; k < 3; k++ {
			b := r.Bytes(n)
			if k == 1 {
				for j := range b {
					b[j] = 0xff
				}
			}
			c.Case(E_ReadDate, [][]byte{b}, func() Obs {
				d, rem, err := data.ReadDate(b)
				c.Check("read_date_short", !(len(b) < 8 && err == nil), "ReadDate", [][]byte{b}, "", "short input accepted")
				if err != nil {
					return ERR()
				}
				c.Check("read_date_frame", bytes.Equal(append(append([]byte{}, d[:]...), rem...), b), "ReadDate", [][]byte{b}, "", "consumed+remainder != input")
				return OK(d[:], rem)
			})
			if n == 8 {
				var d data.Date
				copy(d[:], b)
				c.Case(E_DateInt, [][]byte{b}, func() Obs { return OK(i64(int64(d.Int()))) })
			}
			hashCase(append(append([]byte{}, b...), r.Bytes(r.Intn(30))...))
		}
	}
	for _, n := range []int{31, 32, 33, 64} {
		hashCase(r.Bytes(n))
	}
	millis := func(ms int64) {
		c.Case(E_NewDateFromMillis, [][]byte{i64(ms)}, func() Obs {
			d, err := data.NewDateFromMillis(ms)
			if ms >= 0 {
				ok := err == nil && d != nil && int64(d.Int()) == ms && bytes.Equal(d.Bytes(), beBytes(uint64(ms), 8))
				c.Check("date_millis_roundtrip", ok, "NewDateFromMillis", [][]byte{i64(ms)}, "", fmt.Sprintf("ms=%d", ms))
			} else {
				c.Check("date_millis_reject", err != nil, "NewDateFromMillis", [][]byte{i64(ms)}, "", "negative accepted")
			}
			if err != nil {
				return ERR()
			}
			return OK(d.Bytes())
		})
	}
	unix := func(s int64) {
		c.Case(E_NewDateFromUnix, [][]byte{i64(s)}, func() Obs {
			d, err := data.NewDateFromUnix(s)
			if err != nil {
				return ERR()
			}
			c.Check("date_unix_exact", uint64(d.Int()) == uint64(s)*1000, "NewDateFromUnix", [][]byte{i64(s)}, "", "not s*1000")
			return OK(d.Bytes())
		})
	}
	for _, ms := range []int64{0, 1, 999, 1000, -1, math.MinInt64, math.MaxInt64, math.MaxInt64 - 1, 9223372036854, 9223372036855, 9223372036854775, 1 << 62, 1 << 53, 1700000000000} {
		millis(ms)
		unix(ms)
	}
	unix(math.MaxInt64 / 1000)
	unix(math.MaxInt64/1000 + 1)
	for i := 0; i < c.N(2000, 100000); i++ {
		v := int64(r.U64() >> uint(r.Intn(64)))
		if r.Intn(10) == 0 {
			v = -v
		}
		millis(v)
		unix(v)
		sec := int64(r.U64()>>uint(20+r.Intn(44))) - int64(r.Intn(2))*int64(r.U64()>>30)
		nsec := int64(r.U64()>>uint(r.Intn(64))) - int64(r.Intn(2))*int64(r.U64()>>34)
		c.Case(E_DateFromTime, [][]byte{i64(sec), i64(nsec)}, func() Obs {
			d, _ := data.DateFromTime(time.Unix(sec, nsec))
			return OK(d.Bytes())
		})
	}
	// --- strings: every declared length against every interesting actual length
	strcase := func(b []byte) {
		c.Case(E_ReadI2PString, [][]byte{b}, func() Obs {
			s, rem, err := data.ReadI2PString(b)
			short := len(b) == 0 || len(b) < int(b[0])+1
			c.Check("read_string_short", !(short && err == nil), "ReadI2PString", [][]byte{b}, "", "complete value from short input")
			c.Check("read_string_accept", short || err == nil, "ReadI2PString", [][]byte{b}, "", "well-formed string rejected")
			if err != nil {
				return ERR()
			}
			ok := bytes.Equal(append(append([]byte{}, s...), rem...), b) && len(s) == int(b[0])+1
			c.Check("read_string_frame", ok, "ReadI2PString", [][]byte{b}, "", "consumed+remainder != input")
			return OK(s, rem)
		})
		c.Case(E_StrLength, [][]byte{b}, func() Obs {
			l, err := data.I2PString(b).Length()
			code := byte(0)
			switch err {
			case nil:
			case data.ErrZeroLength:
				code = 1
			case data.ErrDataTooShort:
				code = 2
			case data.ErrDataTooLong:
				code = 3
			default:
				code = 9
			}
			return OK(u64b(uint64(l)), []byte{code})
		})
		c.Case(E_StrData, [][]byte{b}, func() Obs {
			s, err := data.I2PString(b).Data()
			if err != nil {
				return ERR()
			}
			return OK([]byte(s))
		})
		c.Case(E_StrDataSafe, [][]byte{b}, func() Obs {
			s, err := data.I2PString(b).DataSafe()
			if err != nil {
				return ERR()
			}
			return OK([]byte(s))
		})
		c.Case(E_StrIsValid, [][]byte{b}, func() Obs { return OK(bool1(data.I2PString(b).IsValid())) })
		c.Case(E_NewI2PStringFromBytes, [][]byte{b}, func() Obs {
			s, err := data.NewI2PStringFromBytes(b)
			if err != nil {
				return ERR()
			}
			return OK(s)
		})
	}
	strcase(nil)
	lstep := 1
	if c.Tier == "quick" {
		lstep = 5
	}
	for L := 0; L <= 255; L += lstep {
		for _, actual := range []int{0, 1, L - 1, L, L + 1, L + 2, L + 45} {
			if actual < 0 {
				continue
			}
			b := append([]byte{byte(L)}, r.Bytes(actual)...)
			strcase(b)
		}
	}
	strcase(append([]byte{255}, r.Bytes(255)...))
	for i := 0; i < c.N(500, 20000); i++ {
		strcase(r.Bytes(r.Intn(301)))
	}
	for n := 0; n <= 300; n++ {
		if c.Tier == "quick" && n > 3 && n < 250 && n%9 != 0 {
			continue
		}
		s := r.Bytes(n)
		c.Case(E_ToI2PString, [][]byte{s}, func() Obs {
			a, errA := data.ToI2PString(string(s))
			b, errB := data.NewI2PString(string(s))
			if n <= 255 {
				ok := errA == nil && errB == nil && bytes.Equal(a, b) && len(a) == n+1 && int(a[0]) == n
				if ok {
					d, err := a.Data()
					tail := []byte{1, 2, 3}
					rs, rem, rerr := data.ReadI2PString(append(append([]byte{}, a...), tail...))
					ok = err == nil && d == string(s) && rerr == nil && bytes.Equal(rs, a) && bytes.Equal(rem, tail)
				}
				c.Check("string_roundtrip", ok, "ToI2PString", [][]byte{s}, "", fmt.Sprintf("len=%d", n))
			} else {
				c.Check("string_reject", errA != nil && errB != nil, "ToI2PString", [][]byte{s}, "", fmt.Sprintf("len=%d accepted", n))
			}
			if (errA == nil) != (errB == nil) {
				return Obs{Status: "panic"}
			}
			if errA != nil {
				return ERR()
			}
			out := cp(a)
			scribble(a)
			scribble(b)
			c.Hold("ToI2PString", [][]byte{s}, a)
			c.Hold("NewI2PString", [][]byte{s}, b)
			return OK(out)
		})
	}
	// second pass, after the caller has written over (and behind) everything handed out so far
	for v := int64(0); v <= 256; v++ {
		c12IntPair(c, v, 1)
	}
	for v := int64(0); v <= 65536; v += 251 {
		c12IntPair(c, v, 2)
	}
	for _, s := range []string{"", "a", "host", "caps", "router.version", "netId", string(make([]byte, 32)), "0123456789abcdef0123456789abcdef"} {
		a, errA := data.ToI2PString(s)
		b, errB := data.NewI2PString(s)
		ok := errA == nil && errB == nil && bytes.Equal(a, b) && len(a) == len(s)+1 && int(a[0]) == len(s) && string(a[1:]) == s
		c.Check("string_roundtrip", ok, "ToI2PString (second pass)", [][]byte{[]byte(s)}, "", fmt.Sprintf("%q encodes as %x / %x after earlier results were overwritten by the caller", s, []byte(a), []byte(b)))
		scribble(a)
		scribble(b)
		a2, _ := data.ToI2PString(s)
		c.Check("string_roundtrip", len(a2) == len(s)+1 && string(a2[1:]) == s, "ToI2PString (second pass)", [][]byte{[]byte(s)}, "", fmt.Sprintf("%q encodes as %x after the previous result was overwritten", s, []byte(a2)))
	}
}
