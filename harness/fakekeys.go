package main

import (
	"errors"

	"github.com/go-i2p/crypto/types"
)

// fake keys of a given length: only Len()/Bytes() matter to the structural code paths
type fakeKey struct{ b []byte }

func newFakeKey(n int) fakeKey { return fakeKey{make([]byte, n)} }
func (f fakeKey) Len() int                             { return len(f.b) }
func (f fakeKey) Bytes() []byte                        { return f.b }
func (f fakeKey) NewEncrypter() (types.Encrypter, error) { return nil, errors.New("fake key") }

type fakeSPKT struct{ b []byte }

func newFakeSPK(n int) fakeSPKT                          { return fakeSPKT{make([]byte, n)} }
func (f fakeSPKT) Len() int                              { return len(f.b) }
func (f fakeSPKT) Bytes() []byte                         { return f.b }
func (f fakeSPKT) NewVerifier() (types.Verifier, error)  { return nil, errors.New("fake key") }
