package main

import (
	"bytes"
	"crypto/ed25519"
	"fmt"
	"reflect"
	"sort"
	"strings"

	"github.com/go-i2p/common/encrypted_leaseset"
	"github.com/go-i2p/common/lease_set2"
	"github.com/go-i2p/common/meta_leaseset"
	"github.com/go-i2p/common/router_info"
)

func init() { props["C08"] = runC08 }

// snapshot renders everything a value reports through its exported argument-free methods
func snapshot(v interface{}) map[string]string {
	out := map[string]string{}
	if v == nil {
		return out
	}
	rv := reflect.ValueOf(v)
	visit := func(rv reflect.Value) {
		t := rv.Type()
		for i := 0; i < t.NumMethod(); i++ {
			m := t.Method(i)
			if m.Type.NumIn() != 1 {
				continue
			}
			if _, done := out[m.Name]; done {
				continue
			}
			switch m.Name {
			case "IsExpired", "String", "Validate", "IsValid": // depend on the clock
				continue
			}
			func() {
				defer func() {
					if r := recover(); r != nil {
						out[m.Name] = "panic"
					}
				}()
				res := rv.Method(i).Call(nil)
				var sb strings.Builder
				for _, o := range res {
					render(&sb, o, 0)
					sb.WriteByte('|')
				}
				out[m.Name] = sb.String()
			}()
		}
	}
	visit(rv)
	if rv.Kind() == reflect.Ptr && !rv.IsNil() {
		visit(rv.Elem())
	}
	return out
}

// render prints contents, never addresses
func render(sb *strings.Builder, v reflect.Value, depth int) {
	if depth > 6 {
		sb.WriteString("...")
		return
	}
	switch v.Kind() {
	case reflect.Ptr, reflect.Interface:
		if v.IsNil() {
			sb.WriteString("nil")
			return
		}
		if v.Kind() == reflect.Interface {
			if e, ok := v.Interface().(error); ok {
				_ = e
				sb.WriteString("error")
				return
			}
			if b, ok := v.Interface().(interface{ Bytes() []byte }); ok {
				fmt.Fprintf(sb, "%x", b.Bytes())
				return
			}
		}
		render(sb, v.Elem(), depth+1)
	case reflect.Slice, reflect.Array:
		if v.Type().Elem().Kind() == reflect.Uint8 {
			b := make([]byte, v.Len())
			for i := range b {
				b[i] = byte(v.Index(i).Uint())
			}
			fmt.Fprintf(sb, "%x", b)
			return
		}
		sb.WriteByte('[')
		for i := 0; i < v.Len(); i++ {
			render(sb, v.Index(i), depth+1)
			sb.WriteByte(',')
		}
		sb.WriteByte(']')
	case reflect.Struct:
		if v.CanInterface() {
			if b, ok := v.Interface().(interface{ Bytes() []byte }); ok {
				func() {
					defer func() { recover() }()
					fmt.Fprintf(sb, "%x", b.Bytes())
				}()
				return
			}
		}
		sb.WriteByte('{')
		for i := 0; i < v.NumField(); i++ {
			render(sb, v.Field(i), depth+1)
			sb.WriteByte(';')
		}
		sb.WriteByte('}')
	case reflect.String:
		fmt.Fprintf(sb, "%q", v.String())
	case reflect.Bool:
		fmt.Fprintf(sb, "%v", v.Bool())
	case reflect.Int, reflect.Int8, reflect.Int16, reflect.Int32, reflect.Int64:
		fmt.Fprintf(sb, "%d", v.Int())
	case reflect.Uint, reflect.Uint8, reflect.Uint16, reflect.Uint32, reflect.Uint64:
		fmt.Fprintf(sb, "%d", v.Uint())
	case reflect.Map:
		keys := v.MapKeys()
		sort.Slice(keys, func(i, j int) bool { return fmt.Sprint(keys[i]) < fmt.Sprint(keys[j]) })
		for _, k := range keys {
			render(sb, k, depth+1)
			sb.WriteByte(':')
			render(sb, v.MapIndex(k), depth+1)
			sb.WriteByte(',')
		}
	default:
		sb.WriteString(v.Kind().String())
	}
}

// structures whose parsed value must not share memory with the caller's buffer (C08), and
// for LeaseSet2 / MetaLeaseSet the accessors of the parts the property names
var c08Scope = map[string][]string{
	"ReadCertificate": nil, "NewKeyCertificate": nil, "ReadKeysAndCert": nil, "ReadKeysAndCertElgAndEd25519": nil,
	"ReadKeysAndCertX25519AndEd25519": nil, "ReadDestination": nil, "ReadRouterIdentity": nil, "ReadSignature": nil,
	"ReadOfflineSignature": nil, "ReadLease": nil, "ReadLease2": nil, "ReadLeaseSet": nil, "ReadEncryptedLeaseSet": nil,
	"ReadLeaseSet2":    {"Destination", "EncryptionKeys", "Leases", "Signature", "OfflineSignature", "EncryptionKeyCount", "LeaseCount", "Published", "Expires", "Flags"},
	"ReadMetaLeaseSet": {"Destination", "Signature", "OfflineSignature", "NumEntries", "Published", "Expires", "Flags"},
}

// accessors documented to return copies: overwriting the returned slice must not affect the value
var documentedCopies = map[string]bool{"TransientPublicKey": true, "Signature": true, "BlindedPublicKey": true, "EncryptedInnerData": true, "Bytes": true}

func runC08(c *Ctx) {
	r := c.R
	c08Authentic(c)
	c08EveryEntryPoint(c)
	overwrite := func(buf []byte, mode int) {
		for i := range buf {
			switch mode {
			case 0:
				buf[i] = ^buf[i]
			case 1:
				buf[i] = 0xff
			default:
				buf[i] = byte(r.U64())
			}
		}
	}
	for i := range parsers {
		p := &parsers[i]
		methods, inScope := c08Scope[p.Name]
		nWell := c.N(40, 1500)
		if p.Name == "ReadKeysAndCert" || p.Name == "ReadDestination" {
			nWell = c.N(120, 4000)
		}
		for k := 0; k < nWell; k++ {
			w := p.Gen(r)
			if (p.Name == "ReadKeysAndCert" || p.Name == "ReadDestination" || p.Name == "ReadRouterIdentity") && k < 60 {
				// every supported pair, with non-zero padding
				s := libSigSupported[k%len(libSigSupported)]
				cr := libCryptoSupported[(k/len(libSigSupported))%len(libCryptoSupported)]
				id := genIdentTypes(r, s, cr, false)
				for j := range id.Pad {
					id.Pad[j] |= 1
				}
				w = id.Encode()
			}
			var extra [][]byte
			if p.Extra != nil {
				extra = p.Extra(r)
			}
			if r.Intn(4) == 0 {
				w = cat(w, r.Bytes(r.Intn(20)))
			}
			buf := cp(w)
			res := p.Run(buf, extra)
			if !res.OK {
				continue
			}
			before := snapshot(res.Val)
			bytesBefore := cp(res.Bytes)
			mode := k % 3
			overwrite(buf, mode)
			after := snapshot(res.Val)
			// correspondence: the provenance model predicts whether the serialisation follows the buffer
			var changedBytes bool
			args := append([][]byte{u64b(uint64(p.Entry)), w}, extra...)
			c.Case(E_AliasBytesChange, args, func() Obs {
				res2 := p.Run(cp(w), extra) // same input, fresh buffer: serialise after overwriting ITS buffer
				b2 := cp(w)
				r3 := p.Run(b2, extra)
				if !r3.OK || !res2.OK {
					return ERR()
				}
				for j := range b2 {
					b2[j] = ^b2[j]
				}
				after3 := snapshot(r3.Val)
				_ = after3
				nb := reserialise(r3.Val)
				changedBytes = !bytes.Equal(nb, r3.Bytes)
				return OK(bool1(changedBytes))
			})
			if !inScope {
				continue
			}
			var changed []string
			for name, val := range before {
				if methods != nil {
					ok := false
					for _, m := range methods {
						ok = ok || m == name
					}
					if !ok {
						continue
					}
				}
				if after[name] != val {
					changed = append(changed, name)
				}
			}
			sort.Strings(changed)
			c.Check("value_independent_of_input_buffer", len(changed) == 0, p.Name, append([][]byte{w}, extra...), "",
				fmt.Sprintf("after overwriting the input buffer (mode %d) these accessors changed: %v", mode, changed))
			if methods == nil {
				c.Check("serialisation_independent_of_input_buffer", bytes.Equal(reserialise(res.Val), bytesBefore), p.Name, append([][]byte{w}, extra...), "", "Bytes() follows the caller's buffer")
			}
			// returned slices documented as copies
			rv := reflect.ValueOf(res.Val)
			for name := range documentedCopies {
				m := rv.MethodByName(name)
				if !m.IsValid() || m.Type().NumIn() != 0 || m.Type().NumOut() < 1 || m.Type().Out(0).Kind() != reflect.Slice || m.Type().Out(0).Elem().Kind() != reflect.Uint8 {
					continue
				}
				if name == "Bytes" && !(p.Name == "ReadSignature" || p.Name == "ReadOfflineSignature" || p.Name == "ReadEncryptedLeaseSet" || p.Name == "ReadLeaseSet" || p.Name == "ReadKeysAndCert" || p.Name == "ReadDestination") {
					continue
				}
				first := m.Call(nil)[0].Bytes()
				keep := cp(first)
				overwrite(first, 0)
				second := m.Call(nil)[0].Bytes()
				c.Check("returned_copy_independent", bytes.Equal(second, keep), p.Name+"."+name, append([][]byte{w}, extra...), "", "overwriting the returned slice changed the value")
			}
		}
	}
}

// c08Authentic: structures that really verify (signed by the harness with a known key), parsed
// from a buffer that is then overwritten: Verify() is among the things the value "later reports"
func c08Authentic(c *Ctx) {
	r := c.R
	for i := 0; i < c.N(12, 300); i++ {
		k := genEd(r)
		st := []int{7, 11}[r.Intn(2)]
		type tc struct {
			name string
			wire []byte
			run  func(b []byte) (func() error, func() []byte, error)
		}
		// C08 names the identity, key, lease and signature parts of a LeaseSet2 / MetaLeaseSet, not
		// their options mappings: the structures here carry none, so the whole value is in scope
		l2, signer := signLS2(r, k, st, r.Intn(3) == 0)
		l2.H.Options, l2.Sig = nil, nil
		l2.Sig = ed25519.Sign(signer.priv, cat([]byte{3}, l2.Encode()))
		ml := signMeta(r, k, st, false)
		ml.H.Options, ml.Sig = nil, nil
		for j := range ml.Entries {
			ml.Entries[j].Props = nil
		}
		ml.Sig = ed25519.Sign(k.priv, cat([]byte{7}, ml.Encode()))
		el := signEnc(r, k, st, r.Intn(3) == 0)
		ri := signRouterInfo(r, k)
		cases := []tc{
			{"ReadLeaseSet2", l2.Encode(), func(b []byte) (func() error, func() []byte, error) {
				v, _, err := lease_set2.ReadLeaseSet2(b)
				return v.Verify, func() []byte { x, _ := v.Bytes(); return x }, err
			}},
			{"ReadMetaLeaseSet", ml.Encode(), func(b []byte) (func() error, func() []byte, error) {
				v, _, err := meta_leaseset.ReadMetaLeaseSet(b)
				return v.Verify, func() []byte { x, _ := v.Bytes(); return x }, err
			}},
			{"ReadEncryptedLeaseSet", el.Encode(), func(b []byte) (func() error, func() []byte, error) {
				v, _, err := encrypted_leaseset.ReadEncryptedLeaseSet(b)
				return v.Verify, func() []byte { x, _ := v.Bytes(); return x }, err
			}},
			{"ReadRouterInfo", ri.Encode(), func(b []byte) (func() error, func() []byte, error) {
				v, _, err := router_info.ReadRouterInfo(b)
				return func() error {
					ok, e := v.VerifySignature()
					if e == nil && !ok {
						return fmt.Errorf("not verified")
					}
					return e
				}, func() []byte { x, _ := v.Bytes(); return x }, err
			}},
		}
		for _, t := range cases {
			buf := cp(t.wire)
			verify, ser, err := t.run(buf)
			if err != nil {
				continue
			}
			v1 := verify()
			b1 := ser()
			for j := range buf {
				buf[j] ^= byte(1 + r.Intn(255))
			}
			v2 := verify()
			b2 := ser()
			if t.name == "ReadRouterInfo" {
				continue // RouterInfo is not among the structures C08 names; observed only
			}
			c.Check("value_independent_of_input_buffer", (v1 == nil) == (v2 == nil) && bytes.Equal(b1, b2), t.name+".Verify", [][]byte{t.wire}, "",
				fmt.Sprintf("authentic structure: Verify() before overwriting the input buffer: %v, after: %v; Bytes() unchanged=%v", v1, v2, bytes.Equal(b1, b2)))
		}
	}
}

// reserialise calls Bytes() (with or without error result) or Data() on a value
func reserialise(v interface{}) []byte {
	b, _ := reserialiseRaw(v)
	return b
}

// reserialiseRaw also returns the very slice the method handed out (nil when the result was not a
// byte slice), so that the caller can write into it
func reserialiseRaw(v interface{}) (copyOf []byte, handedOut []byte) {
	rv := reflect.ValueOf(v)
	for _, name := range []string{"Bytes", "Data"} {
		m := rv.MethodByName(name)
		if !m.IsValid() || m.Type().NumIn() != 0 {
			continue
		}
		out := m.Call(nil)
		if len(out) >= 1 && out[0].Kind() == reflect.Slice {
			return cp(out[0].Bytes()), out[0].Bytes()
		}
		if len(out) >= 1 && out[0].Kind() == reflect.Array {
			b := make([]byte, out[0].Len())
			for i := range b {
				b[i] = byte(out[0].Index(i).Uint())
			}
			return b, nil
		}
		if len(out) >= 1 && out[0].Kind() == reflect.String {
			return []byte(out[0].String()), nil
		}
	}
	return nil, nil
}

// scribble writes over a slice the library handed out, and over the spare capacity behind it
// (what "append(x.Bytes(), more...)" does): both are the caller's to write
func scribble(b []byte) {
	for i := range b {
		b[i] ^= 0xA5
	}
	full := b[:cap(b)]
	for i := len(b); i < len(full); i++ {
		full[i] ^= 0x5A
	}
}

// stableStruct: for a struct value, serialising, writing over the returned bytes and serialising
// again yields the same bytes (a serialisation is not a window onto the value's own storage)
func stableStruct(v interface{}) (ok bool, applicable bool) {
	rv := reflect.ValueOf(v)
	if !rv.IsValid() {
		return true, false
	}
	k := rv.Kind()
	if k == reflect.Ptr {
		if rv.IsNil() {
			return true, false
		}
		k = rv.Elem().Kind()
	}
	if k != reflect.Struct {
		return true, false // slice- and array-typed values are their own storage
	}
	keep, raw := reserialiseRaw(v)
	if raw == nil {
		return true, false
	}
	scribble(raw)
	again := reserialise(v)
	return bytes.Equal(keep, again), true
}

// c08EveryEntryPoint: the in-scope structures through EVERY exported function that builds one from a
// byte slice — found by result type in the API table regenerated from the source, not listed by
// hand (NewLeaseFromBytes, NewDestinationFromBytes, ReadDestinationFromLeaseSet, NewSignature, ...):
// parse from a buffer, record everything the value reports, overwrite the buffer, look again
func c08EveryEntryPoint(c *Ctx) {
	r := c.R
	const mod = "github.com/go-i2p/common/"
	// result type -> the parser whose generator produces well-formed encodings of it
	gens := map[string]string{
		mod + "certificate.Certificate": "ReadCertificate", mod + "key_certificate.KeyCertificate": "NewKeyCertificate",
		mod + "keys_and_cert.KeysAndCert": "ReadKeysAndCert", mod + "destination.Destination": "ReadDestination",
		mod + "router_identity.RouterIdentity": "ReadRouterIdentity", mod + "signature.Signature": "ReadSignature",
		mod + "offline_signature.OfflineSignature": "ReadOfflineSignature", mod + "lease.Lease": "ReadLease",
		mod + "lease.Lease2": "ReadLease2", mod + "lease_set.LeaseSet": "ReadLeaseSet",
		mod + "encrypted_leaseset.EncryptedLeaseSet": "ReadEncryptedLeaseSet",
	}
	byName := map[string]*Parser{}
	for i := range parsers {
		byName[parsers[i].Name] = &parsers[i]
	}
	var names []string
	for name := range apiByteFuncShape {
		names = append(names, name)
	}
	sort.Strings(names)
	for _, name := range names {
		shape := apiByteFuncShape[name]
		arrow := strings.Index(shape, "-> ")
		if arrow < 0 {
			continue
		}
		results := strings.Fields(shape[arrow+3:])
		if len(results) < 2 || results[len(results)-1] != "error" {
			continue
		}
		p := byName[gens[results[0]]]
		if p == nil || p.Gen == nil {
			continue
		}
		f := apiByteFuncResults[name]
		for k := 0; k < c.N(12, 300); k++ {
			w := p.Gen(r)
			if k%3 == 1 {
				w = cat(w, r.Bytes(1+r.Intn(20)))
			}
			n := []int{7, 7, 11, 0, 1}[k%5]
			if p.Extra != nil {
				if ex := p.Extra(r); len(ex) > 0 {
					n = argInt(ex[0])
				}
			}
			buf := cp(w)
			var res []interface{}
			func() {
				defer func() { _ = recover() }()
				res = f(buf, n)
			}()
			if len(res) < 2 {
				continue
			}
			if e, isErr := res[len(res)-1].(error); isErr && e != nil {
				continue
			}
			v := reflect.ValueOf(res[0])
			if !v.IsValid() || (v.Kind() == reflect.Ptr && v.IsNil()) {
				continue
			}
			if v.Kind() != reflect.Ptr {
				pv := reflect.New(v.Type())
				pv.Elem().Set(v)
				v = pv
			}
			before := snapshot(v.Interface())
			bytesBefore := reserialise(v.Interface())
			for i := range buf {
				switch k % 3 {
				case 0:
					buf[i] = ^buf[i]
				case 1:
					buf[i] = 0xff
				default:
					buf[i] = byte(r.U64())
				}
			}
			after := snapshot(v.Interface())
			var changed []string
			for m, val := range before {
				if after[m] != val {
					changed = append(changed, m)
				}
			}
			sort.Strings(changed)
			args := [][]byte{w, i64(int64(n))}
			c.Check("value_independent_of_input_buffer", len(changed) == 0, name, args, "",
				fmt.Sprintf("after overwriting the input buffer these accessors changed: %v", changed))
			c.Check("serialisation_independent_of_input_buffer", bytes.Equal(reserialise(v.Interface()), bytesBefore), name, args, "", "the serialisation follows the caller's buffer")
		}
	}
}
