package main

import (
	"bytes"
	"fmt"

	"github.com/go-i2p/common/data"
	"github.com/go-i2p/common/destination"
	"github.com/go-i2p/common/key_certificate"
	"github.com/go-i2p/common/keys_and_cert"
	"github.com/go-i2p/common/lease"
	"github.com/go-i2p/common/lease_set2"
	"github.com/go-i2p/common/offline_signature"
	"github.com/go-i2p/common/router_identity"
	"github.com/go-i2p/common/signature"
)

func init() { props["C10"] = runC10 }

func optInt(v int, known bool) []byte {
	if !known {
		return []byte{255}
	}
	return i64(int64(v))
}

// kcFor builds a KeyCertificate value carrying the given 16-bit codes by parsing bytes.
func kcFor(s, cr int) *key_certificate.KeyCertificate {
	k, _, err := key_certificate.NewKeyCertificate(cat([]byte{5, 0, 4}, u16(s), u16(cr)))
	if err != nil {
		return nil
	}
	return k
}

// c04Codes: every size lookup on every 16-bit code returns normally (also used by C04)
func c04Codes(c *Ctx) {
	for code := -2; code <= 65537; code++ {
		o := guard(func() Obs {
			signature.SignatureSize(code)
			key_certificate.GetSigningKeySize(code)
			key_certificate.GetCryptoKeySize(code)
			key_certificate.GetSignatureSize(code)
			key_certificate.GetKeySizes(code, code)
			if code >= 0 && code <= 65535 {
				offline_signature.SignatureSize(uint16(code))
				offline_signature.SigningPublicKeySize(uint16(code))
				key_certificate.ConstructSigningPublicKeyByType(make([]byte, 32), code)
				if k := kcFor(code, code); k != nil {
					callAllMethods(k)
				}
			}
			return OK()
		})
		c.Check("size_lookup_returns_normally", o.Status == "ok", "size lookups", [][]byte{i64(int64(code))}, "", "panic on type code")
	}
}

// leaseset key validation: is this crypto type known to LeaseSet2.Validate, and with which size?
func ls2KeyKnown(dest []byte, t int, n int) (accepted bool) {
	d := genIdentTypes(&Rng{1}, 7, 4, false)
	_ = d
	return false
}

func runC10(c *Ctx) {
	r := c.R
	// (T) every lookup on every 16-bit code: implementation vs the regenerated tables, and
	// the property oracle: all lookups agree with each other and with the specification
	for code := 0; code <= 65535; code++ {
		cb := i64(int64(code))
		var sigSz, spkSz, crSz int
		var sigKnown, crKnown bool
		c.Case(E_KCSizes, [][]byte{cb}, func() Obs {
			a, e1 := key_certificate.GetSignatureSize(code)
			b, e2 := key_certificate.GetSigningKeySize(code)
			cc, e3 := key_certificate.GetCryptoKeySize(code)
			d, ok4 := key_certificate.CryptoPublicKeySizes[uint16(code)]
			e, ok5 := key_certificate.SignaturePublicKeySizes[uint16(code)]
			sigSz, spkSz, crSz, sigKnown, crKnown = a, b, cc, e1 == nil, e3 == nil
			// the KeyCertificate methods, on a certificate carrying this code
			k := kcFor(code, code)
			mOK := k != nil && k.SignatureSize() == a && k.SigningPublicKeySize() == b && k.CryptoSize() == cc
			// a signing-type lookup must not depend on the partner crypto code, nor the reverse:
			// known, experimental-range and unknown partners
			for _, partner := range []int{4, 0, 65280, 12345} {
				if ks := kcFor(code, partner); ks != nil {
					mOK = mOK && ks.SignatureSize() == a && ks.SigningPublicKeySize() == b
				}
				if kcr := kcFor([]int{7, 0, 65281, 12345}[partner%4], code); kcr != nil {
					mOK = mOK && kcr.CryptoSize() == cc
				}
			}
			if k != nil {
				cp2, cerr := k.CryptoPublicKeySize()
				mOK = mOK && (cerr == nil) == ok4 && (cerr != nil || cp2 == d)
			}
			ks, kerr := key_certificate.GetKeySizes(code, code)
			mOK = mOK && (kerr == nil) == (e1 == nil && e3 == nil) && (kerr != nil || (ks.SignatureSize == a && ks.SigningPublicKeySize == b && ks.CryptoPublicKeySize == cc))
			c.Check("keycert_lookups_agree", mOK && (e1 == nil) == (e2 == nil) && (e2 == nil) == ok5 && (!ok5 || e == b) && (e3 == nil) == ok4 && (!ok4 || d == cc),
				"key_certificate lookups", [][]byte{cb}, "", fmt.Sprintf("code %d: sig=%d/%v spk=%d/%v crypto=%d/%v pubsizes=%d/%v sigpub=%d/%v", code, a, e1, b, e2, cc, e3, d, ok4, e, ok5))
			return OK(optInt(a, e1 == nil), optInt(b, e2 == nil), optInt(cc, e3 == nil), optInt(d, ok4), optInt(e, ok5))
		})
		var sLen int
		var sKnown bool
		c.Case(E_SigSize, [][]byte{cb}, func() Obs {
			n, err := signature.SignatureSize(code)
			sLen, sKnown = n, err == nil
			return OK(optInt(n, err == nil))
		})
		var oSpk, oSig int
		c.Case(E_OffSizes, [][]byte{cb}, func() Obs {
			oSpk, oSig = offline_signature.SigningPublicKeySize(uint16(code)), offline_signature.SignatureSize(uint16(code))
			return OK(i64(int64(oSpk)), i64(int64(oSig)))
		})
		// property: all lookups agree with each other and with the specification's table
		specSpk, specKnownSig := specSigPubLen[code]
		specSig := specSigLen[code]
		specCr, specKnownCr := specCryptoLen[code]
		ok := sigKnown == specKnownSig && sKnown == specKnownSig && (oSpk != 0) == specKnownSig && (oSig != 0) == specKnownSig && crKnown == specKnownCr
		if ok && specKnownSig {
			ok = sigSz == specSig && spkSz == specSpk && sLen == specSig && oSpk == specSpk && oSig == specSig
		}
		if ok && specKnownCr {
			ok = crSz == specCr
		}
		c.Check("size_tables_agree", ok, "all size lookups", [][]byte{cb}, "",
			fmt.Sprintf("code %d: keycert sig=%d spk=%d known=%v | signature len=%d known=%v | offline spk=%d sig=%d | crypto=%d known=%v | spec spk=%d sig=%d crypto=%d", code, sigSz, spkSz, sigKnown, sLen, sKnown, oSpk, oSig, crSz, crKnown, specSpk, specSig, specCr))
		// leaseset key validation: a LeaseSet2 encryption key of this type with the
		// specification's length validates; with another length it does not (known types)
		if specKnownCr || code < 40 || code%97 == 0 {
			n := specCr
			if !specKnownCr {
				n = 7
			}
			good := ls2ValidateKeyAt(code, n, 0, 1)
			bad := ls2ValidateKeyAt(code, n+1, 0, 1)
			want := specKnownCr
			indep := ls2KeyPositionIndependent(code, n) && ls2KeyPositionIndependent(code, n+1)
			c.Check("leaseset_key_validation_agrees", good && (bad == !want) && indep, "LeaseSet2.Validate key size", [][]byte{cb}, "",
				fmt.Sprintf("crypto type %d: spec length accepted=%v, other length accepted=%v, known in spec=%v, same verdict at every key position=%v", code, good, bad, want, indep))
		}
	}
	// EncryptedLeaseSet: the blinded key's length is the table's for sig_type, whatever the
	// transient key type of an offline block (every known pair, with and without offline keys)
	var elsParser *Parser
	for i := range parsers {
		if parsers[i].Name == "ReadEncryptedLeaseSet" {
			elsParser = &parsers[i]
		}
	}
	known := []int{0, 1, 2, 3, 4, 5, 6, 7, 8, 11}
	for _, bt := range known {
		for _, tt := range append([]int{-1}, known...) {
			for _, delta := range []int{0, 1, -1} {
				e := EncLSV{SigType: bt, Key: r.Bytes(specSigPubLen[bt] + delta), Published: uint32(r.U64()), Expires: 1 + uint16(r.U64()%65535), Inner: r.Bytes(61 + r.Intn(40))}
				fl := specSigLen[bt]
				if tt >= 0 {
					e.Offline = &Offline{Expires: 4000000000, SigType: tt, Key: r.Bytes(specSigPubLen[tt]), Sig: r.Bytes(specSigLen[bt])}
					e.Flags = 1
					fl = specSigLen[tt]
				}
				e.Sig = r.Bytes(fl)
				w := e.Encode()
				res := runParser(c, elsParser, w, nil)
				if delta == 0 {
					c.Check("leaseset_key_validation_agrees", res.OK && len(res.Rem) == 0, "ReadEncryptedLeaseSet blinded key size", [][]byte{w}, "",
						fmt.Sprintf("blinded type %d (key %d bytes, the table's length), transient type %d: rejected", bt, len(e.Key), tt))
				} else {
					// a key one byte off shifts every later field: the structure must not be accepted as complete
					c.Check("leaseset_key_validation_agrees", !(res.OK && len(res.Rem) == 0), "ReadEncryptedLeaseSet blinded key size", [][]byte{w}, "",
						fmt.Sprintf("blinded type %d with a %d-byte key accepted as a complete structure", bt, len(e.Key)))
				}
			}
		}
	}
	// the 384-byte block for every supported pair, arbitrary key / padding / certificate bytes
	for _, s := range libSigSupported {
		for _, cr := range libCryptoSupported {
			for k := 0; k < c.N(25, 600); k++ {
				id := genIdentTypes(r, s, cr, false)
				w := id.Encode()
				tail := r.Bytes(r.Intn(9))
				in := cat(w, tail)
				// through every reader of the family: the generic reader must accept every supported
				// pair; the type-specific readers, ReadDestination and ReadRouterIdentity may refuse,
				// but whatever any of them accepts must have the layout
				for i := range parsers {
					var k *keys_and_cert.KeysAndCert
					name := parsers[i].Name
					switch name {
					case "ReadKeysAndCert", "ReadKeysAndCertElgAndEd25519", "ReadKeysAndCertX25519AndEd25519", "ReadDestination", "ReadRouterIdentity":
					default:
						continue
					}
					runParser(c, &parsers[i], in, nil)
					// acceptance is what the reader itself says (err == nil), whether or not the value
					// can be serialised afterwards
					var rem []byte
					var err error
					switch name {
					case "ReadKeysAndCert":
						k, rem, err = keys_and_cert.ReadKeysAndCert(cp(in))
					case "ReadKeysAndCertElgAndEd25519":
						k, rem, err = keys_and_cert.ReadKeysAndCertElgAndEd25519(cp(in))
					case "ReadKeysAndCertX25519AndEd25519":
						k, rem, err = keys_and_cert.ReadKeysAndCertX25519AndEd25519(cp(in))
					case "ReadDestination":
						var d destination.Destination
						d, rem, err = destination.ReadDestination(cp(in))
						k = d.KeysAndCert
					case "ReadRouterIdentity":
						var ri *router_identity.RouterIdentity
						ri, rem, err = router_identity.ReadRouterIdentity(cp(in))
						if ri != nil {
							k = ri.KeysAndCert
						}
					}
					if err != nil {
						if name == "ReadKeysAndCert" {
							c.Check("key_block_layout", false, name, [][]byte{in}, "", "rejected")
						}
						continue
					}
					if k == nil || k.ReceivingPublic == nil || k.SigningPublic == nil || k.KeyCertificate == nil {
						c.Check("key_block_layout", false, name, [][]byte{in}, "", "accepted value without keys")
						continue
					}
					pub, spk := k.ReceivingPublic.Bytes(), k.SigningPublic.Bytes()
					cl, sl := specCryptoLen[cr], specSigPubLen[s]
					ok := bytes.Equal(pub, in[:cl]) && bytes.Equal(spk, in[384-sl:384]) && bytes.Equal(k.Padding, in[cl:384-sl]) &&
						k.KeyCertificate.CryptoSize() == len(pub) && k.KeyCertificate.SigningPublicKeySize() == len(spk) &&
						len(pub) == cl && len(spk) == sl && bytes.Equal(rem, tail)
					detail := fmt.Sprintf("sig %d crypto %d: pub=%d spk=%d pad=%d", s, cr, len(pub), len(spk), len(k.Padding))
					// the serialiser lays the block out the same way
					if ok {
						out, err := k.Bytes()
						ok = err == nil && len(out) >= 384 && bytes.Equal(out[:cl], pub) && bytes.Equal(out[cl:384-sl], k.Padding) && bytes.Equal(out[384-sl:384], spk)
						if !ok {
							detail += fmt.Sprintf("; serialised block differs: %x", out)
						}
					}
					c.Check("key_block_layout", ok, name, [][]byte{in}, "", detail)
				}
			}
		}
	}
}

var ls2FixedDest []byte

// ls2ValidateKey: does LeaseSet2.Validate accept an encryption key of type t with n bytes —
// asked with the key alone, first of two, last of two and in the middle of three (the other
// keys being valid X25519 keys): the answer must not depend on the position.
func ls2ValidateKey(t, n int) bool {
	first := ls2ValidateKeyAt(t, n, 0, 1)
	for _, lay := range [][2]int{{0, 2}, {1, 2}, {1, 3}} {
		if ls2ValidateKeyAt(t, n, lay[0], lay[1]) != first {
			return false
		}
	}
	return first
}

// ls2KeyPositionIndependent reports whether all layouts agree (used by the oracle's detail)
func ls2KeyPositionIndependent(t, n int) bool {
	first := ls2ValidateKeyAt(t, n, 0, 1)
	for _, lay := range [][2]int{{0, 2}, {1, 2}, {1, 3}} {
		if ls2ValidateKeyAt(t, n, lay[0], lay[1]) != first {
			return false
		}
	}
	return true
}

func ls2ValidateKeyAt(t, n, pos, total int) bool {
	if ls2FixedDest == nil {
		ls2FixedDest = genIdentTypes(&Rng{7}, 7, 4, false).Encode()
	}
	rr := &Rng{uint64(t)*131 + uint64(n) + uint64(pos*7+total)}
	keys := []byte{byte(total)}
	for i := 0; i < total; i++ {
		if i == pos {
			keys = cat(keys, u16(t), u16(n), rr.Bytes(n))
		} else {
			keys = cat(keys, u16(4), u16(32), rr.Bytes(32))
		}
	}
	w := cat(ls2FixedDest, u32(1), u16(1), u16(0), []byte{0, 0}, keys, []byte{2}, genLease2(rr), genLease2(rr), rr.Bytes(64))
	ls, _, err := lease_set2.ReadLeaseSet2(cat(w, make([]byte, 64)))
	if err != nil {
		return false
	}
	return ls.Validate() == nil
}

var _ = lease.LEASE_SIZE
var _ = data.DATE_SIZE
