// spec.go — an independent encoder of the I2P 0.9.67 common structures, written from
// the specification text (NOT from the library): the source of well-formed inputs for
// every generator and the reference of C02.
package main

import (
	"encoding/binary"
	"sort"
	"time"
)

// specification tables (common-structures: SigningPublicKey, Signature, PublicKey)
var specSigPubLen = map[int]int{0: 128, 1: 64, 2: 96, 3: 132, 4: 256, 5: 384, 6: 512, 7: 32, 8: 32, 11: 32}
var specSigLen = map[int]int{0: 40, 1: 64, 2: 96, 3: 132, 4: 256, 5: 384, 6: 512, 7: 64, 8: 64, 11: 64}
var specCryptoLen = map[int]int{0: 256, 1: 64, 2: 96, 3: 132, 4: 32, 5: 32, 6: 32, 7: 32}

// prohibited in Destinations / RouterIdentities (spec: RSA and Ed25519ph are offline-only,
// ML-KEM hybrids are LeaseSet-only, RedDSA is Destination-only)
var specDestDenySig = map[int]bool{4: true, 5: true, 6: true, 8: true}
var specDenyCrypto = map[int]bool{5: true, 6: true, 7: true}
var specRIDenySig = map[int]bool{4: true, 5: true, 6: true, 8: true, 11: true}

// what the library can construct inline (signing key <= 128 bytes and a constructor exists)
var libSigSupported = []int{0, 1, 2, 7, 8, 11}
var libCryptoSupported = []int{0, 4, 5, 6, 7}

type Ident struct {
	NullCert  bool
	CertType  int // used when neither NULL nor KEY semantics apply (negative tests)
	SigType   int
	Crypto    int
	Pub       []byte // crypto key, specCryptoLen bytes
	Spk       []byte // signing key, specSigPubLen bytes (<=128)
	Pad       []byte // 384 - len(Pub) - len(Spk)
	CertExtra []byte // extra payload declared in the certificate after the 4 type bytes
}

func u16(v int) []byte     { b := make([]byte, 2); binary.BigEndian.PutUint16(b, uint16(v)); return b }
func u32(v uint32) []byte  { b := make([]byte, 4); binary.BigEndian.PutUint32(b, v); return b }
func u64e(v uint64) []byte { b := make([]byte, 8); binary.BigEndian.PutUint64(b, v); return b }
func cat(bs ...[]byte) []byte {
	var out []byte
	for _, b := range bs {
		out = append(out, b...)
	}
	return out
}

func (id Ident) Cert() []byte {
	if id.NullCert {
		return cat([]byte{0}, u16(len(id.CertExtra)), id.CertExtra)
	}
	payload := cat(u16(id.SigType), u16(id.Crypto), id.CertExtra)
	return cat([]byte{5}, u16(len(payload)), payload)
}

// 384-byte block: crypto key at the start, signing key at the end, padding between
func (id Ident) Encode() []byte {
	block := cat(id.Pub, id.Pad, id.Spk)
	return cat(block, id.Cert())
}

func genIdentTypes(r *Rng, sigType, crypto int, null bool) Ident {
	id := Ident{NullCert: null, SigType: sigType, Crypto: crypto}
	if null {
		id.SigType, id.Crypto = 0, 0
	}
	cl, ok := specCryptoLen[id.Crypto]
	if !ok {
		cl = 32
	}
	sl, ok := specSigPubLen[id.SigType]
	if !ok || sl > 128 {
		sl = 32
	}
	id.Pub = r.Bytes(cl)
	id.Spk = r.Bytes(sl)
	if id.Crypto == 0 {
		id.Pub[0] &= 0x7f // below the ElGamal prime
		id.Pub[255] |= 2
	}
	if id.SigType == 0 {
		id.Spk[0] &= 0x7f // below the DSA prime
		id.Spk[127] |= 2
	}
	id.Pad = r.Bytes(384 - cl - sl)
	switch r.Intn(6) {
	case 0:
		for i := range id.Pad {
			id.Pad[i] = 0
		}
	}
	if r.Intn(5) == 0 {
		id.CertExtra = r.Bytes(1 + r.Intn(20))
	}
	return id
}

// destination-legal identities (what every leaseset embeds)
func genDestIdent(r *Rng) Ident {
	if r.Intn(6) == 0 {
		return genIdentTypes(r, 0, 0, true)
	}
	sigs := []int{0, 1, 2, 7, 11}
	crs := []int{0, 4}
	return genIdentTypes(r, sigs[r.Intn(len(sigs))], crs[r.Intn(len(crs))], false)
}
func genRouterIdent(r *Rng) Ident {
	if r.Intn(8) == 0 {
		return genIdentTypes(r, 0, 0, true)
	}
	sigs := []int{0, 1, 2, 7}
	crs := []int{0, 4}
	return genIdentTypes(r, sigs[r.Intn(len(sigs))], crs[r.Intn(len(crs))], false)
}

// any identity the generic reader accepts, plus near misses
func genAnyIdent(r *Rng) Ident {
	switch r.Intn(10) {
	case 0:
		return genIdentTypes(r, 0, 0, true)
	case 1: // unsupported / prohibited / unknown types
		sigs := []int{3, 4, 5, 6, 8, 9, 10, 12, 20, 255, 256, 65280, 65535}
		crs := []int{1, 2, 3, 5, 6, 7, 8, 255, 65280, 65535}
		if r.Bool() {
			return genIdentTypes(r, sigs[r.Intn(len(sigs))], libCryptoSupported[r.Intn(len(libCryptoSupported))], false)
		}
		return genIdentTypes(r, libSigSupported[r.Intn(len(libSigSupported))], crs[r.Intn(len(crs))], false)
	default:
		return genIdentTypes(r, libSigSupported[r.Intn(len(libSigSupported))], libCryptoSupported[r.Intn(len(libCryptoSupported))], false)
	}
}

// ---- mapping ----
type KV struct{ K, V []byte }

func encodeMappingPairs(kvs []KV) []byte {
	var p []byte
	for _, kv := range kvs {
		p = cat(p, []byte{byte(len(kv.K))}, kv.K, []byte{'='}, []byte{byte(len(kv.V))}, kv.V, []byte{';'})
	}
	return p
}
func encodeMapping(kvs []KV) []byte {
	p := encodeMappingPairs(kvs)
	return cat(u16(len(p)), p)
}
func sortKVs(kvs []KV) []KV {
	out := append([]KV(nil), kvs...)
	sort.SliceStable(out, func(i, j int) bool { return string(out[i].K) < string(out[j].K) })
	return out
}

var keyAlphabet = []byte("abcdefghijklmnopqrstuvwxyz.=;0123456789\x00\xff")

// lengths whose one-byte length prefix is itself a special byte: '=' (61), ';' (59), NUL,
// LF, the neighbours of those, and the limits
var specialLens = []int{59, 61, 58, 60, 62, 10, 13, 32, 127, 128, 254, 255}

func genKey(r *Rng) []byte {
	switch r.Intn(12) {
	case 10:
		return r.Bytes(specialLens[r.Intn(len(specialLens))])
	case 0:
		return r.Bytes(1)
	case 1:
		return r.Bytes(255)
	case 2:
		return []byte{keyAlphabet[r.Intn(len(keyAlphabet))]}
	default:
		n := 1 + r.Intn(12)
		b := make([]byte, n)
		for i := range b {
			b[i] = keyAlphabet[r.Intn(len(keyAlphabet))]
		}
		return b
	}
}
func genVal(r *Rng) []byte {
	switch r.Intn(10) {
	case 8:
		return r.Bytes(specialLens[r.Intn(len(specialLens))])
	case 0:
		return nil
	case 1:
		return r.Bytes(255)
	case 2:
		return r.Bytes(1)
	default:
		return r.Bytes(r.Intn(20))
	}
}

// distinct keys; canonical (sorted) two times out of three, otherwise in arbitrary wire order:
// a mapping read from the wire need not be sorted
func genKVs(r *Rng, maxPairs int) []KV {
	n := r.Intn(maxPairs + 1)
	seen := map[string]bool{}
	var kvs []KV
	for len(kvs) < n {
		k := genKey(r)
		if seen[string(k)] {
			continue
		}
		seen[string(k)] = true
		kvs = append(kvs, KV{k, genVal(r)})
	}
	if r.Intn(3) == 0 {
		return kvs
	}
	return sortKVs(kvs)
}
func genSmallKVs(r *Rng) []KV {
	switch r.Intn(5) {
	case 0:
		return nil
	case 1: // a single short pair (shorter than six bytes on the wire)
		return []KV{{[]byte{keyAlphabet[r.Intn(26)]}, nil}}
	case 2: // ends with a short pair
		kvs := genKVs(r, 3)
		last := KV{[]byte{'~'}, r.Bytes(r.Intn(2))}
		for _, kv := range kvs { // keys stay distinct: a duplicate key is a format violation
			if string(kv.K) == "~" {
				return sortKVs(kvs)
			}
		}
		kvs = append(kvs, last)
		return sortKVs(kvs)
	default:
		return genKVs(r, 4)
	}
}

// ---- offline signature ----
type Offline struct {
	Expires  uint32
	SigType  int
	Key, Sig []byte
}

func (o Offline) Encode() []byte { return cat(u32(o.Expires), u16(o.SigType), o.Key, o.Sig) }
func genOffline(r *Rng, destSigType int) Offline {
	ts := []int{0, 1, 2, 3, 4, 7, 8, 11}
	t := ts[r.Intn(len(ts))]
	if r.Intn(3) == 0 {
		t = 7
	}
	return Offline{Expires: 1 + uint32(r.U64()>>33), SigType: t, Key: r.Bytes(specSigPubLen[t]), Sig: r.Bytes(specSigLen[destSigType])}
}

// ---- leases ----
func genLease(r *Rng) []byte {
	return cat(r.Bytes(32), u32(uint32(r.U64())), u64e(r.U64()>>uint(r.Intn(30))))
}
func genLease2(r *Rng) []byte {
	return cat(r.Bytes(32), u32(uint32(r.U64())), u32(uint32(r.U64()>>uint(r.Intn(20)))))
}

// ---- LeaseSet (v1) ----
type LeaseSetV struct {
	Dest   Ident
	Enc    []byte
	Spk    []byte
	Leases [][]byte
	Sig    []byte
}

func (l LeaseSetV) Encode() []byte {
	return cat(l.Dest.Encode(), l.Enc, l.Spk, []byte{byte(len(l.Leases))}, cat(l.Leases...), l.Sig)
}
func genCount(r *Rng, max int) int {
	switch r.Intn(6) {
	case 0:
		return 0
	case 1:
		return max
	case 2:
		return 1
	default:
		return r.Intn(max + 1)
	}
}
func genLeaseSet(r *Rng) LeaseSetV {
	d := genDestIdent(r)
	enc := r.Bytes(256)
	enc[0] &= 0x7f
	enc[255] |= 2
	spk := r.Bytes(specSigPubLen[d.SigType])
	if d.SigType == 0 {
		spk[0] &= 0x7f
		spk[127] |= 2
	}
	n := genCount(r, 16)
	ls := LeaseSetV{Dest: d, Enc: enc, Spk: spk, Sig: r.Bytes(specSigLen[d.SigType])}
	for i := 0; i < n; i++ {
		ls.Leases = append(ls.Leases, genLease(r))
	}
	return ls
}

// ---- LeaseSet2 / MetaLeaseSet header ----
type EncKey struct {
	Type int
	Data []byte
}
type LS2Header struct {
	Dest      Ident
	Published uint32
	Expires   uint16
	Flags     uint16
	Offline   *Offline
	Options   []KV
}

func (h LS2Header) Encode() []byte {
	b := cat(h.Dest.Encode(), u32(h.Published), u16(int(h.Expires)), u16(int(h.Flags)))
	if h.Offline != nil {
		b = cat(b, h.Offline.Encode())
	}
	return cat(b, encodeMapping(h.Options))
}
func (h LS2Header) FinalSigLen() int {
	if h.Offline != nil {
		return specSigLen[h.Offline.SigType]
	}
	return specSigLen[h.Dest.SigType]
}
func genLS2Header(r *Rng) LS2Header {
	h := LS2Header{Dest: genDestIdent(r), Published: uint32(r.U64() >> uint(32+r.Intn(3))), Expires: uint16(r.U64()), Options: genSmallKVs(r)}
	if forceCurrentOffline || r.Intn(4) == 0 {
		// current: published within the last minutes and not yet expired on the harness clock
		// (time-dependent accessors take a different path for current structures)
		h.Published = uint32(time.Now().Unix()) - uint32(r.Intn(300))
		h.Expires = 600 + uint16(r.Intn(60000))
	}
	h.Flags = uint16(r.Intn(4)) << 1 // unpublished / blinded bits
	if r.Intn(8) == 0 {
		h.Flags |= uint16(1) << uint(3+r.Intn(13)) // reserved bits are only logged by LeaseSet2
	}
	if forceCurrentOffline || r.Intn(3) == 0 {
		o := genOffline(r, h.Dest.SigType)
		if forceCurrentOffline {
			o.Expires = uint32(time.Now().Unix()) + 3600
		}
		h.Offline = &o
		h.Flags |= 1
	}
	return h
}

// forceCurrentOffline makes genLS2Header produce a structure that is current on the harness
// clock and uses offline keys (set by checks that need that combination deterministically)
var forceCurrentOffline bool

type LeaseSet2V struct {
	H      LS2Header
	Keys   []EncKey
	Leases [][]byte
	Sig    []byte
}

func (l LeaseSet2V) Encode() []byte {
	b := l.H.Encode()
	b = append(b, byte(len(l.Keys)))
	for _, k := range l.Keys {
		b = cat(b, u16(k.Type), u16(len(k.Data)), k.Data)
	}
	b = append(b, byte(len(l.Leases)))
	return cat(b, cat(l.Leases...), l.Sig)
}
func genEncKey(r *Rng) EncKey {
	ts := []int{0, 1, 4, 5, 6, 7, 99}
	t := ts[r.Intn(len(ts))]
	n, ok := specCryptoLen[t]
	if !ok {
		n = r.Intn(40)
	}
	if r.Intn(10) == 0 {
		n = r.Intn(300) // type/length mismatch is only logged by the parser
	}
	return EncKey{t, r.Bytes(n)}
}
func genLeaseSet2(r *Rng) LeaseSet2V {
	l := LeaseSet2V{H: genLS2Header(r)}
	nk := 1 + genCount(r, 15)
	for i := 0; i < nk; i++ {
		l.Keys = append(l.Keys, genEncKey(r))
	}
	nl := genCount(r, 16)
	for i := 0; i < nl; i++ {
		l.Leases = append(l.Leases, genLease2(r))
	}
	l.Sig = r.Bytes(l.H.FinalSigLen())
	return l
}

// ---- MetaLeaseSet ----
type MetaEntry struct {
	Hash    []byte
	Type    int
	Expires uint32
	Cost    int
	Props   []KV
}
type MetaLeaseSetV struct {
	H       LS2Header
	Entries []MetaEntry
	Sig     []byte
}

func (m MetaLeaseSetV) Encode() []byte {
	b := m.H.Encode()
	b = append(b, byte(len(m.Entries)))
	for _, e := range m.Entries {
		b = cat(b, e.Hash, []byte{byte(e.Type)}, u32(e.Expires), []byte{byte(e.Cost)}, encodeMapping(e.Props))
	}
	return cat(b, m.Sig)
}
func genMeta(r *Rng) MetaLeaseSetV {
	m := MetaLeaseSetV{H: genLS2Header(r)}
	n := 1 + genCount(r, 15)
	for i := 0; i < n; i++ {
		m.Entries = append(m.Entries, MetaEntry{r.Bytes(32), []int{1, 3, 5}[r.Intn(3)], uint32(r.U64()), r.Intn(256), genSmallKVs(r)})
	}
	m.Sig = r.Bytes(m.H.FinalSigLen())
	return m
}

// ---- EncryptedLeaseSet ----
type EncLSV struct {
	SigType   int
	Key       []byte
	Published uint32
	Expires   uint16
	Flags     uint16
	Offline   *Offline
	Inner     []byte
	Sig       []byte
}

func (e EncLSV) Encode() []byte {
	b := cat(u16(e.SigType), e.Key, u32(e.Published), u16(int(e.Expires)), u16(int(e.Flags)))
	if e.Offline != nil {
		b = cat(b, e.Offline.Encode())
	}
	return cat(b, u16(len(e.Inner)), e.Inner, e.Sig)
}
func genEncLS(r *Rng) EncLSV {
	ts := []int{7, 11, 7, 11, 0, 1, 2, 8, 7, 11, 3, 4, 5, 6}
	t := ts[r.Intn(len(ts))]
	e := EncLSV{SigType: t, Key: r.Bytes(specSigPubLen[t]), Published: uint32(r.U64()), Expires: 1 + uint16(r.U64()%65535), Flags: uint16(r.Intn(2)) << 1}
	fl := specSigLen[t]
	if r.Intn(3) == 0 {
		o := genOffline(r, t)
		e.Offline = &o
		e.Flags |= 1
		fl = specSigLen[o.SigType]
	}
	e.Inner = r.Bytes(61 + r.Intn(200))
	if r.Intn(10) == 0 {
		e.Inner = r.Bytes(61)
	}
	e.Sig = r.Bytes(fl)
	return e
}

// ---- RouterAddress / RouterInfo ----
type RouterAddrV struct {
	Cost  int
	Date  uint64
	Style []byte
	Opts  []KV
}

func (a RouterAddrV) Encode() []byte {
	return cat([]byte{byte(a.Cost)}, u64e(a.Date), []byte{byte(len(a.Style))}, a.Style, encodeMapping(a.Opts))
}
func genRouterAddr(r *Rng) RouterAddrV {
	styles := [][]byte{[]byte("NTCP2"), []byte("SSU2"), []byte("S"), r.Bytes(r.Intn(30))}
	a := RouterAddrV{Cost: r.Intn(256), Style: styles[r.Intn(len(styles))]}
	if r.Intn(4) == 0 {
		a.Date = r.U64()
	}
	switch r.Intn(5) {
	case 0:
		a.Opts = genSmallKVs(r)
	case 1:
		// any subset of the well-known transport options, values from pools that include the
		// empty string, in canonical or arbitrary wire order
		pools := map[string][]string{
			"host": {"192.0.2.7", "::1", "::ffff:192.0.2.7", "2001:db8::1", "example.org", "", "1.2.3"},
			"port": {"12345", "0", "65536", "", "80 "},
			"caps": {"", "4", "6", "46", "BC", "B6"},
			"s":    {"", string(r.Bytes(32)), "x"},
			"i":    {"", string(r.Bytes(16))},
			"v":    {"2", ""},
			"mtu":  {"1500", ""},
		}
		for _, k := range []string{"caps", "host", "i", "mtu", "port", "s", "v"} {
			if r.Bool() {
				vs := pools[k]
				a.Opts = append(a.Opts, KV{[]byte(k), []byte(vs[r.Intn(len(vs))])})
			}
		}
		if r.Intn(3) == 0 {
			for j := len(a.Opts) - 1; j > 0; j-- {
				k := r.Intn(j + 1)
				a.Opts[j], a.Opts[k] = a.Opts[k], a.Opts[j]
			}
		}
	default:
		a.Opts = sortKVs([]KV{{[]byte("host"), []byte("192.0.2.7")}, {[]byte("port"), []byte("12345")}, {[]byte("v"), []byte("2")}})
		if r.Bool() {
			a.Opts = sortKVs(append(a.Opts, KV{[]byte("i"), r.Bytes(r.Intn(3))}))
		}
	}
	return a
}

type RouterInfoV struct {
	Ident      Ident
	Published  uint64
	Addrs      []RouterAddrV
	PeerHashes []byte
	PeerSize   int
	Opts       []KV
	Sig        []byte
}

func (ri RouterInfoV) Encode() []byte {
	b := cat(ri.Ident.Encode(), u64e(ri.Published), []byte{byte(len(ri.Addrs))})
	for _, a := range ri.Addrs {
		b = cat(b, a.Encode())
	}
	return cat(b, []byte{byte(ri.PeerSize)}, ri.PeerHashes, encodeMapping(ri.Opts), ri.Sig)
}
func genRouterInfo(r *Rng) RouterInfoV {
	ri := RouterInfoV{Ident: genRouterIdent(r), Published: r.U64() >> uint(r.Intn(30))}
	n := genCount(r, 4)
	if r.Intn(25) == 0 {
		n = []int{15, 16, 17, 254, 255}[r.Intn(5)] // many addresses: the count is one byte
	}
	for i := 0; i < n; i++ {
		ri.Addrs = append(ri.Addrs, genRouterAddr(r))
	}
	if r.Intn(6) == 0 {
		ri.PeerSize = r.Intn(256)
	}
	switch r.Intn(4) {
	case 0:
		ri.Opts = genSmallKVs(r)
	case 1:
		// the well-known router options with unusual values (empty, malformed versions, every
		// capability letter), any subset, canonical or arbitrary wire order
		pools := map[string][]string{
			"caps":           {"", "f", "fR", "XfR", "KU", "LRD", "PE", "NOG", "HR", "zzzz", "f f"},
			"router.version": {"0.9.67", "", "0.9", "0.9.9999", "1.0.0", "0.9.67-rc", "a.b.c", "0..9", "0.9.67.1", "00.09.067"},
			"netId":          {"2", "", "255", "-1", "x"},
			"coreVersion":    {"0.9.67", ""},
		}
		for _, k := range []string{"caps", "coreVersion", "netId", "router.version"} {
			if r.Intn(4) != 0 {
				vs := pools[k]
				ri.Opts = append(ri.Opts, KV{[]byte(k), []byte(vs[r.Intn(len(vs))])})
			}
		}
		if r.Intn(3) == 0 {
			for j := len(ri.Opts) - 1; j > 0; j-- {
				k := r.Intn(j + 1)
				ri.Opts[j], ri.Opts[k] = ri.Opts[k], ri.Opts[j]
			}
		}
	default:
		ri.Opts = sortKVs([]KV{{[]byte("caps"), []byte("fR")}, {[]byte("router.version"), []byte("0.9.67")}, {[]byte("netId"), []byte("2")}})
	}
	ri.Sig = r.Bytes(specSigLen[ri.Ident.SigType])
	return ri
}
