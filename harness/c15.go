package main

import (
	"bytes"
	"fmt"
	"math"
	"time"

	"github.com/go-i2p/common/data"
	"github.com/go-i2p/common/encrypted_leaseset"
	"github.com/go-i2p/common/lease"
	"github.com/go-i2p/common/lease_set"
	"github.com/go-i2p/common/lease_set2"
	"github.com/go-i2p/common/meta_leaseset"
	"github.com/go-i2p/common/offline_signature"
)

func init() { props["C15"] = runC15 }

var c15Dest []byte

func c15LS2(published uint32, expires uint16) []byte {
	if c15Dest == nil {
		c15Dest = genIdentTypes(&Rng{99}, 7, 4, false).Encode()
	}
	rr := &Rng{uint64(published)<<16 | uint64(expires)}
	return cat(c15Dest, u32(published), u16(int(expires)), u16(0), []byte{0, 0, 1}, u16(4), u16(32), rr.Bytes(32), []byte{2}, genLease2(rr), genLease2(rr), rr.Bytes(64))
}
func c15Meta(published uint32, expires uint16, entryExp uint32) []byte {
	if c15Dest == nil {
		c15Dest = genIdentTypes(&Rng{99}, 7, 4, false).Encode()
	}
	rr := &Rng{uint64(published)<<16 | uint64(expires)}
	return cat(c15Dest, u32(published), u16(int(expires)), u16(0), []byte{0, 0, 2}, rr.Bytes(32), []byte{3}, u32(entryExp), []byte{1, 0, 0}, rr.Bytes(32), []byte{1}, u32(entryExp), []byte{2, 0, 0}, rr.Bytes(64))
}
func c15Enc(published uint32, expires uint16) []byte {
	rr := &Rng{uint64(published)<<16 | uint64(expires)}
	return cat(u16(7), rr.Bytes(32), u32(published), u16(int(expires)), u16(0), u16(70), rr.Bytes(70), rr.Bytes(64))
}

// the same structures with the OFFLINE_KEYS flag and an offline block whose own expiry is offExp
func c15OfflineBlock(rr *Rng, offExp uint32) []byte {
	return cat(u32(offExp), u16(7), rr.Bytes(32), rr.Bytes(64))
}
func c15LS2Offline(published uint32, expires uint16, offExp uint32) []byte {
	if c15Dest == nil {
		c15Dest = genIdentTypes(&Rng{99}, 7, 4, false).Encode()
	}
	rr := &Rng{uint64(published)<<16 | uint64(expires)}
	return cat(c15Dest, u32(published), u16(int(expires)), u16(1), c15OfflineBlock(rr, offExp), []byte{0, 0, 1}, u16(4), u16(32), rr.Bytes(32), []byte{2}, genLease2(rr), genLease2(rr), rr.Bytes(64))
}
func c15EncOffline(published uint32, expires uint16, offExp uint32) []byte {
	rr := &Rng{uint64(published)<<16 | uint64(expires)}
	return cat(u16(7), rr.Bytes(32), u32(published), u16(int(expires)), u16(1), c15OfflineBlock(rr, offExp), u16(70), rr.Bytes(70), rr.Bytes(64))
}

func runC15(c *Ctx) {
	r := c.R
	// second <-> millisecond conversions over the whole range of millisecond dates below 2^63:
	// every byte position of the 8-byte Date is exercised (values at 2^(8k) and just below)
	for k := uint(0); k < 63; k++ {
		for _, ms := range []int64{int64(1) << k, int64(1)<<k - 1, int64(1)<<k | 0x0123456789abcdef&(int64(1)<<k-1)} {
			if ms < 0 {
				continue
			}
			c.Case(E_NewDateFromMillis, [][]byte{i64(ms)}, func() Obs {
				d, err := data.NewDateFromMillis(ms)
				ok := err == nil && d != nil && bytes.Equal(d.Bytes(), beBytes(uint64(ms), 8)) && d.Time().UnixMilli() == ms
				c.Check("millis_exact", ok, "NewDateFromMillis", [][]byte{i64(ms)}, "", fmt.Sprintf("ms=%d: date bytes %x", ms, func() []byte {
					if d == nil {
						return nil
					}
					return d.Bytes()
				}()))
				if err != nil {
					return ERR()
				}
				return OK(d.Bytes())
			})
			sec, nsec := ms/1000, (ms%1000)*1000000
			c.Case(E_DateFromTime, [][]byte{i64(sec), i64(nsec)}, func() Obs {
				d, _ := data.DateFromTime(time.Unix(sec, nsec))
				c.Check("millis_exact", bytes.Equal(d.Bytes(), beBytes(uint64(ms), 8)), "DateFromTime", [][]byte{i64(sec), i64(nsec)}, "", fmt.Sprintf("ms=%d: date bytes %x", ms, d.Bytes()))
				return OK(d.Bytes())
			})
			if ms%1000 == 0 {
				s := ms / 1000
				c.Case(E_NewDateFromUnix, [][]byte{i64(s)}, func() Obs {
					d, err := data.NewDateFromUnix(s)
					if err != nil {
						return ERR()
					}
					c.Check("millis_exact", bytes.Equal(d.Bytes(), beBytes(uint64(ms), 8)), "NewDateFromUnix", [][]byte{i64(s)}, "", fmt.Sprintf("s=%d: date bytes %x", s, d.Bytes()))
					return OK(d.Bytes())
				})
			}
		}
	}
	pubs := []uint32{0, 1, 1 << 31, 1<<31 - 1, 1<<32 - 1, 1<<32 - 2, 1700000000, 2147483648 + 65535, 4294901760}
	exps := []uint16{0, 1, 2, 659, 660, 32767, 32768, 65534, 65535}
	pe := func(p uint32, e uint16) {
		exact := int64(p) + int64(e)
		args := [][]byte{u64b(uint64(p)), u64b(uint64(e))}
		c.Case(E_LS2Expiration, args, func() Obs {
			ls, _, err := lease_set2.ReadLeaseSet2(c15LS2(p, e))
			if err != nil {
				return ERR()
			}
			pu, eu := ls.PublishedTime().Unix(), ls.ExpirationTime().Unix()
			c.Check("ls2_expiration_exact", pu == int64(p) && eu == exact && ls.ExpirationTime().Nanosecond() == 0 && ls.Published() == p && ls.Expires() == e,
				"LeaseSet2.ExpirationTime", args, "", fmt.Sprintf("published=%d expires=%d: got %d want %d", p, e, eu, exact))
			return OK(i64(pu), i64(eu))
		})
		if e != 0 {
			c.Case(E_EncExpiration, args, func() Obs {
				el, _, err := encrypted_leaseset.ReadEncryptedLeaseSet(c15Enc(p, e))
				if err != nil {
					return ERR()
				}
				pu, eu := el.PublishedTime().Unix(), el.ExpirationTime().Unix()
				c.Check("enc_expiration_exact", pu == int64(p) && eu == exact, "EncryptedLeaseSet.ExpirationTime", args, "", fmt.Sprintf("got %d want %d", eu, exact))
				return OK(i64(pu), i64(eu))
			})
		}
		// with offline keys: the transient key's own expiry — earlier than, equal to or later than
		// published + expires — is a different field and does not enter the structure's expiration
		if e != 0 {
			for _, offExp := range []uint32{1, p, uint32(exact & 0xffffffff), 1<<32 - 1, 1 << 31} {
				if offExp == 0 {
					continue
				}
				if el, _, err := encrypted_leaseset.ReadEncryptedLeaseSet(c15EncOffline(p, e, offExp)); err == nil {
					c.Check("enc_expiration_exact", el.ExpirationTime().Unix() == exact, "EncryptedLeaseSet.ExpirationTime (offline keys)", append(args, u64b(uint64(offExp))), "",
						fmt.Sprintf("offline expiry %d: got %d want %d", offExp, el.ExpirationTime().Unix(), exact))
				}
				if ls, _, err := lease_set2.ReadLeaseSet2(c15LS2Offline(p, e, offExp)); err == nil {
					c.Check("ls2_expiration_exact", ls.ExpirationTime().Unix() == exact, "LeaseSet2.ExpirationTime (offline keys)", append(args, u64b(uint64(offExp))), "",
						fmt.Sprintf("offline expiry %d: got %d want %d", offExp, ls.ExpirationTime().Unix(), exact))
				}
			}
		}
		c.Case(E_MetaExpiration, args, func() Obs {
			m, _, err := meta_leaseset.ReadMetaLeaseSet(c15Meta(p, e, p))
			if err != nil {
				return ERR()
			}
			pu, eu := m.PublishedTime().Unix(), m.ExpirationTime().Unix()
			c.Check("meta_expiration_exact", pu == int64(p) && eu == exact, "MetaLeaseSet.ExpirationTime", args, "", fmt.Sprintf("got %d want %d", eu, exact))
			ents := m.Entries()
			c.Check("meta_entry_expires_exact", len(ents) == 2 && ents[0].ExpiresTime().Unix() == int64(p) && ents[1].Expires() == p, "MetaLeaseSetEntry.ExpiresTime", args, "", "entry expiry differs")
			return OK(i64(pu), i64(eu))
		})
		// 32-bit second fields: Lease2, offline signature, meta entry
		var l2 lease.Lease2
		copy(l2[36:], u32(p))
		c.Case(E_Lease2Time, [][]byte{u64b(uint64(p))}, func() Obs {
			d := l2.Date()
			c.Check("lease2_conversion_exact", l2.Time().Unix() == int64(p) && uint64(d.Int()) == uint64(p)*1000 && l2.EndDate() == p, "Lease2.Time/Date", [][]byte{u64b(uint64(p))}, "", fmt.Sprintf("end=%d: Time=%d Date=%d", p, l2.Time().Unix(), d.Int()))
			return OK(i64(l2.Time().Unix()), d[:])
		})
		c.Case(E_OfflineExpires, [][]byte{u64b(uint64(p))}, func() Obs {
			o, err := offline_signature.NewOfflineSignature(p, 7, make([]byte, 32), make([]byte, 64), 7)
			if err != nil {
				return ERR()
			}
			d, derr := o.ExpiresDate()
			if derr != nil {
				return ERR()
			}
			c.Check("offline_expiry_exact", o.ExpiresTime().Unix() == int64(p) && uint64(d.Int()) == uint64(p)*1000 && o.Expires() == p, "OfflineSignature.ExpiresTime/ExpiresDate", [][]byte{u64b(uint64(p))}, "", fmt.Sprintf("expires=%d: time=%d date=%d", p, o.ExpiresTime().Unix(), d.Int()))
			return OK(i64(o.ExpiresTime().Unix()), d.Bytes())
		})
	}
	for _, p := range pubs {
		for _, e := range exps {
			pe(p, e)
		}
	}
	for i := 0; i < c.N(400, 20000); i++ {
		pe(uint32(r.U64()>>uint(32+r.Intn(8))), uint16(r.U64()>>uint(48+r.Intn(8))))
	}
	// millisecond dates below 2^63: Lease.Time / Date
	dates := []uint64{0, 1, 999, 1000, 1 << 31, 1 << 32, 1<<32*1000 + 5, 1<<53 + 1, 1<<62 + 12345, 1<<63 - 1, 1700000000123}
	for i := 0; i < c.N(300, 10000); i++ {
		dates = append(dates, r.U64()>>uint(1+r.Intn(40)))
	}
	for _, d := range dates {
		var l lease.Lease
		copy(l[36:], u64e(d))
		c.Case(E_LeaseTime, [][]byte{u64e(d)}, func() Obs {
			t := l.Time()
			dd := l.Date()
			ok := t.UnixMilli() == int64(d) && uint64(dd.Int()) == d
			c.Check("lease_date_exact", ok, "Lease.Time/Date", [][]byte{u64e(d)}, "", fmt.Sprintf("date=%d: Time().UnixMilli()=%d Date=%d", d, t.UnixMilli(), dd.Int()))
			return OK(i64(t.UnixMilli()))
		})
	}
	// constructors from time.Time
	secs := []int64{0, -1, 1, 1<<31 - 1, 1 << 31, 1<<32 - 1, 1 << 32, 1<<32 + 1, -1 << 31, math.MaxInt64 / 2000, 253402300799, 1700000000,
		// far beyond any calendar: second counts whose millisecond or nanosecond form wraps around 2^64
		1 << 40, 1 << 53, 1 << 61, 1 << 62, 1<<62 + 1800000, 18446744073709552, 18446744073709552 + 1800000, 9223372036854776, -(1 << 61)}
	for i := 0; i < c.N(300, 10000); i++ {
		s := int64(r.U64() >> uint(28+r.Intn(30)))
		if r.Intn(6) == 0 {
			s = -s
		}
		secs = append(secs, s)
	}
	for _, s := range secs {
		nsec := int64(0)
		switch r.Intn(4) {
		case 0:
			nsec = int64(r.Intn(1000000000))
		case 1:
			nsec = 999999999
		}
		t := time.Unix(s, nsec)
		c.Case(E_NewLease2, [][]byte{i64(s), i64(nsec)}, func() Obs {
			l, err := lease.NewLease2(data.Hash{1}, 7, t)
			inRange := s >= 0 && s <= 1<<32-1
			if inRange {
				c.Check("new_lease2_stores_exact", err == nil && l != nil && l.EndDate() == uint32(s) && l.Time().Unix() == s, "NewLease2", [][]byte{i64(s), i64(nsec)}, "", fmt.Sprintf("unix=%d", s))
			} else {
				c.Check("new_lease2_rejects_out_of_range", err != nil, "NewLease2", [][]byte{i64(s), i64(nsec)}, "", fmt.Sprintf("unix=%d accepted (stored a wrapped value)", s))
			}
			if err != nil {
				return ERR()
			}
			return OK(l.Bytes()[36:])
		})
		if s > -9e15 && s < 9e15 {
			c.Case(E_NewLease, [][]byte{i64(s), i64(nsec)}, func() Obs {
				l, err := lease.NewLease(data.Hash{1}, 7, t)
				if err != nil {
					return ERR()
				}
				if s >= 0 {
					want := uint64(s)*1000 + uint64(nsec/1000000)
					d := l.Date()
					c.Check("new_lease_exact", uint64(d.Int()) == want && l.Time().UnixMilli() == int64(want), "NewLease", [][]byte{i64(s), i64(nsec)}, "", fmt.Sprintf("want %d got %d", want, d.Int()))
				}
				return OK(l.Bytes()[36:])
			})
		}
	}
	// newest / oldest expiration over 1..16 leases with arbitrary dates (< 2^63)
	for i := 0; i < c.N(400, 20000); i++ {
		n := 1 + r.Intn(16)
		ls := genLeaseSet(r)
		ls.Leases = nil
		var ds [][]byte
		var vals []uint64
		for k := 0; k < n; k++ {
			var d uint64
			switch r.Intn(5) {
			case 0:
				d = r.U64() >> 1
			case 1:
				d = uint64(r.Intn(5))
			default:
				d = 1700000000000 + uint64(r.Intn(100000))*uint64(1+r.Intn(1000))
			}
			if k > 0 && r.Intn(5) == 0 {
				d = vals[r.Intn(len(vals))] // ties
			}
			vals = append(vals, d)
			l := cat(r.Bytes(32), u32(uint32(r.U64())), u64e(d))
			ls.Leases = append(ls.Leases, l)
			ds = append(ds, u64e(d))
		}
		w := ls.Encode()
		c.Case(E_NewestOldest, ds, func() Obs {
			p, err := lease_set.ReadLeaseSet(w)
			if err != nil {
				return Obs{Status: "panic"} // generator bug: must be accepted
			}
			nw, e1 := p.NewestExpiration()
			od, e2 := p.OldestExpiration()
			if e1 != nil || e2 != nil {
				return ERR()
			}
			mx, mn := vals[0], vals[0]
			for _, v := range vals {
				if v > mx {
					mx = v
				}
				if v < mn {
					mn = v
				}
			}
			member := func(d data.Date) bool {
				for _, x := range ds {
					if bytes.Equal(x, d[:]) {
						return true
					}
				}
				return false
			}
			ok := uint64(nw.Int()) == mx && uint64(od.Int()) == mn && member(nw) && member(od)
			c.Check("newest_oldest_bound_all", ok, "LeaseSet.NewestExpiration/OldestExpiration", ds, "", fmt.Sprintf("dates=%v newest=%d oldest=%d", vals, nw.Int(), od.Int()))
			return OK(nw[:], od[:])
		})
	}
	// a day in the past is expired, a day in the future is not
	now := time.Now()
	offs := []int64{-86400, 86400, -90000, 100000, 1, -2, 3600, -3600,
		1<<31 - 86400, 1 << 31, 1<<31 + 86400, 1<<31 + 86400*365, // more than 2^31 s ahead of the clock
		int64(0xFFFFFFFF) - now.Unix(), int64(0xFFFFFFFE) - now.Unix(), // the end of the 32-bit range
		11 - now.Unix(), 86400 - now.Unix()} // the beginning of the range (published = ts-10 must not wrap)
	for _, off := range offs {
		if now.Unix()+off < 11 || now.Unix()+off > 0xFFFFFFFF {
			continue
		}
		// the clock is read again for every offset, and a future instant that the clock has reached by the
		// time the answers are in (a loaded machine, a one-second margin) decides nothing
		cur := time.Now()
		if cur.Unix()+off < 11 || cur.Unix()+off > 0xFFFFFFFF {
			continue
		}
		ts := uint32(cur.Unix() + off)
		want := off < 0
		// the same expiry instant split into published + offset in several ways, up to the largest offset
		for _, e16 := range []uint16{600, 32767, 32768, 50000, 65535} {
			if int64(ts)-int64(e16) < 1 {
				continue
			}
			lsx, _, ex := lease_set2.ReadLeaseSet2(c15LS2(ts-uint32(e16), e16))
			mx, _, ex2 := meta_leaseset.ReadMetaLeaseSet(c15Meta(ts-uint32(e16), e16, ts))
			elx, _, ex3 := encrypted_leaseset.ReadEncryptedLeaseSet(c15Enc(ts-uint32(e16), e16))
			okx := ex == nil && ex2 == nil && ex3 == nil && lsx.IsExpired() == want && mx.IsExpired() == want && elx.IsExpired() == want
			if !want && time.Now().Unix() >= int64(ts) {
				continue
			}
			c.Check("expired_iff_past", okx, "IsExpired", [][]byte{i64(off), u16(int(e16))}, "",
				fmt.Sprintf("expiry %d s from now as published + %d: expected expired=%v", off, e16, want))
		}
		ls, _, err := lease_set2.ReadLeaseSet2(c15LS2(ts-10, 10))
		m, _, err2 := meta_leaseset.ReadMetaLeaseSet(c15Meta(ts-10, 10, ts))
		el, _, err3 := encrypted_leaseset.ReadEncryptedLeaseSet(c15Enc(ts-10, 10))
		o, err4 := offline_signature.NewOfflineSignature(ts, 7, make([]byte, 32), make([]byte, 64), 7)
		var l2 lease.Lease2
		copy(l2[36:], u32(ts))
		var l1 lease.Lease
		copy(l1[36:], u64e(uint64(ts)*1000))
		ok := err == nil && err2 == nil && err3 == nil && err4 == nil &&
			ls.IsExpired() == want && m.IsExpired() == want && el.IsExpired() == want && o.IsExpired() == want &&
			l2.IsExpired() == want && l1.IsExpired() == want && m.Entries()[0].IsExpired() == want
		if !want && time.Now().Unix() >= int64(ts) {
			continue
		}
		c.Check("expired_iff_past", ok, "IsExpired", [][]byte{i64(off)}, "", fmt.Sprintf("offset %d s from now: expected expired=%v", off, want))
	}
	// the legacy Lease carries a 64-bit millisecond end date: instants beyond the 32-bit second range
	// (2106 and later) are in the future, and Time()/Date() report them exactly
	for _, secs := range []uint64{1<<32 - 1, 1 << 32, 1<<32 + 1, 1<<32 + uint64(now.Unix()), 5680281600, 1 << 33, 1<<33 + 12345, 1 << 34, 1 << 40, 1<<53/1000} {
		var l1 lease.Lease
		l1[0] = 1
		ms := secs*1000 + uint64(r.Intn(1000))
		copy(l1[36:], u64e(ms))
		ok := !l1.IsExpired() && l1.Validate() == nil && uint64(l1.Time().UnixMilli()) == ms && uint64(l1.Date().Int()) == ms
		c.Check("expired_iff_past", ok, "Lease.IsExpired", [][]byte{u64e(ms)}, "", fmt.Sprintf("end date %d ms is in the future: expired=%v validate=%v", ms, l1.IsExpired(), l1.Validate()))
	}
}
