package main

import (
	"bytes"
	"crypto/ed25519"
	"fmt"
	"time"

	"github.com/go-i2p/common/data"
	"github.com/go-i2p/common/destination"
	"github.com/go-i2p/common/encrypted_leaseset"
	"github.com/go-i2p/common/keys_and_cert"
	"github.com/go-i2p/common/lease"
	"github.com/go-i2p/common/lease_set"
	"github.com/go-i2p/common/lease_set2"
	"github.com/go-i2p/common/meta_leaseset"
	"github.com/go-i2p/common/offline_signature"
	"github.com/go-i2p/common/router_address"
	"github.com/go-i2p/common/router_identity"
	"github.com/go-i2p/common/router_info"
	cryptoed "github.com/go-i2p/crypto/ed25519"
	"github.com/go-i2p/crypto/elg"
)

func init() { props["C02"] = runC02 }

func mappingPairsEqual(m data.Mapping, kvs []KV) bool {
	vals := m.Values()
	if len(vals) != len(kvs) {
		return false
	}
	for i, p := range vals {
		k, e1 := p[0].Data()
		v, e2 := p[1].Data()
		if e1 != nil || e2 != nil || k != string(kvs[i].K) || v != string(kvs[i].V) {
			return false
		}
	}
	// lookup by key exposes the encoded value too (the first one when a key repeats), whatever
	// the wire order of the pairs
	seen := map[string]bool{}
	for _, kv := range kvs {
		if seen[string(kv.K)] || len(kv.K) > 255 {
			continue
		}
		seen[string(kv.K)] = true
		ks, err := data.ToI2PString(string(kv.K))
		if err != nil {
			continue
		}
		got := vals.Get(ks)
		if got == nil {
			return false
		}
		gv, err := got.Data()
		if (err != nil && len(kv.V) > 0) || gv != string(kv.V) {
			return false
		}
	}
	return true
}

func identFieldsEqual(k *keys_and_cert.KeysAndCert, id Ident) (bool, string) {
	if k == nil || k.KeyCertificate == nil || k.ReceivingPublic == nil || k.SigningPublic == nil {
		return false, "nil field"
	}
	if !bytes.Equal(k.ReceivingPublic.Bytes(), id.Pub) {
		return false, "encryption key is not the first bytes of the 384-byte block"
	}
	if !bytes.Equal(k.SigningPublic.Bytes(), id.Spk) {
		return false, "signing key is not the last bytes of the 384-byte block"
	}
	if !bytes.Equal(k.Padding, id.Pad) {
		return false, "padding is not the bytes between the keys"
	}
	if k.KeyCertificate.SigningPublicKeyType() != id.SigType || k.KeyCertificate.PublicKeyType() != id.Crypto {
		return false, "key types differ"
	}
	ct, _ := k.Certificate().Type()
	wantCT := 5
	if id.NullCert {
		wantCT = 0
	}
	if ct != wantCT {
		return false, "certificate type differs"
	}
	return true, ""
}

func offlineEqual(o *offline_signature.OfflineSignature, want *Offline) bool {
	if want == nil {
		return o == nil
	}
	return o != nil && o.Expires() == want.Expires && int(o.TransientSigType()) == want.SigType && bytes.Equal(o.TransientPublicKey(), want.Key) && bytes.Equal(o.Signature(), want.Sig)
}

// the independent decoder of the encodings the library's constructors produce: a strict
// reader of the specification layout that returns the field values
type specReader struct {
	b   []byte
	err bool
}

func (s *specReader) take(n int) []byte {
	if s.err || n < 0 || n > len(s.b) {
		s.err = true
		return nil
	}
	x := s.b[:n]
	s.b = s.b[n:]
	return x
}
func (s *specReader) u8() int  { x := s.take(1); if s.err { return 0 }; return int(x[0]) }
func (s *specReader) u16() int { x := s.take(2); if s.err { return 0 }; return int(x[0])<<8 | int(x[1]) }
func (s *specReader) u32() uint32 {
	x := s.take(4)
	if s.err {
		return 0
	}
	return uint32(x[0])<<24 | uint32(x[1])<<16 | uint32(x[2])<<8 | uint32(x[3])
}
func (s *specReader) u64() uint64 { return uint64(s.u32())<<32 | uint64(s.u32()) }
func (s *specReader) mapping() []KV {
	n := s.u16()
	body := &specReader{b: s.take(n)}
	var kvs []KV
	for !s.err && !body.err && len(body.b) > 0 {
		k := body.take(body.u8())
		if body.u8() != '=' {
			body.err = true
		}
		v := body.take(body.u8())
		if body.u8() != ';' {
			body.err = true
		}
		kvs = append(kvs, KV{cp(k), cp(v)})
	}
	if body.err {
		s.err = true
	}
	return kvs
}
func (s *specReader) ident() Ident {
	block := s.take(384)
	ct := s.u8()
	cl := s.u16()
	payload := s.take(cl)
	if s.err {
		return Ident{}
	}
	id := Ident{}
	switch ct {
	case 0:
		id.NullCert = true
		id.CertExtra = cp(payload)
	case 5:
		if cl < 4 {
			s.err = true
			return id
		}
		id.SigType = int(payload[0])<<8 | int(payload[1])
		id.Crypto = int(payload[2])<<8 | int(payload[3])
		id.CertExtra = cp(payload[4:])
	default:
		s.err = true
		return id
	}
	c, okc := specCryptoLen[id.Crypto]
	sl, oks := specSigPubLen[id.SigType]
	if !okc || !oks || sl > 128 {
		s.err = true
		return id
	}
	id.Pub, id.Pad, id.Spk = cp(block[:c]), cp(block[c:384-sl]), cp(block[384-sl:])
	return id
}
func kvsEqual(a, b []KV) bool {
	if len(a) != len(b) {
		return false
	}
	for i := range a {
		if !bytes.Equal(a[i].K, b[i].K) || !bytes.Equal(a[i].V, b[i].V) {
			return false
		}
	}
	return true
}

func runC02(c *Ctx) {
	r := c.R
	byName := map[string]*Parser{}
	for i := range parsers {
		byName[parsers[i].Name] = &parsers[i]
	}
	tails := func() []byte { return r.Bytes([]int{0, 0, 1, 7, 33}[r.Intn(5)]) }
	check := func(name string, ok bool, in []byte, detail string) {
		c.Check("spec_encoding_accepted_with_same_fields", ok, name, [][]byte{in}, "", detail)
	}
	// ---------- identities: every supported pair x NULL/KEY certificate x extra payload
	var idents []Ident
	for _, s := range libSigSupported {
		for _, cr := range libCryptoSupported {
			for _, extra := range []int{0, 3} {
				id := genIdentTypes(r, s, cr, false)
				id.CertExtra = r.Bytes(extra)
				idents = append(idents, id)
			}
		}
	}
	for _, extra := range []int{0, 5} {
		id := genIdentTypes(r, 0, 0, true)
		id.CertExtra = r.Bytes(extra)
		idents = append(idents, id)
	}
	for _, id := range idents {
		tail := tails()
		in := cat(id.Encode(), tail)
		p := runParser(c, byName["ReadKeysAndCert"], in, nil)
		ok, why := p.OK, "rejected"
		if ok {
			ok, why = identFieldsEqual(p.Val.(*keys_and_cert.KeysAndCert), id)
			if ok && !bytes.Equal(p.Rem, tail) {
				ok, why = false, "did not consume exactly the encoding"
			}
			// and what the library WRITES for this value is the specification's encoding again
			if ok && !bytes.Equal(p.Bytes, id.Encode()) {
				ok, why = false, "the value serialises to something other than the specification's encoding"
			}
		}
		check("ReadKeysAndCert", ok, in, fmt.Sprintf("sig %d crypto %d null=%v: %s", id.SigType, id.Crypto, id.NullCert, why))
	}
	n := c.N(40, 1200)
	// ---------- LeaseSet
	for i := 0; i < n; i++ {
		ls := genLeaseSet(r)
		ls.Leases = nil
		cnt := i % 17
		for k := 0; k < cnt; k++ {
			ls.Leases = append(ls.Leases, genLease(r))
		}
		in := ls.Encode()
		p := runParser(c, byName["ReadLeaseSet"], in, nil)
		ok, why := p.OK, "rejected"
		if ok {
			v := p.Val.(*lease_set.LeaseSet)
			d := v.Destination()
			ok, why = identFieldsEqual(d.KeysAndCert, ls.Dest)
			pk, _ := v.PublicKey()
			sk, _ := v.SigningKey()
			sg := v.Signature()
			if ok && !(bytes.Equal(pk[:], ls.Enc) && sk != nil && bytes.Equal(sk.Bytes(), ls.Spk) && v.LeaseCount() == cnt && len(v.Leases()) == cnt && bytes.Equal(sg.Bytes(), ls.Sig)) {
				ok, why = false, "encryption key / signing key / lease count / signature differ"
			}
			for k, l := range v.Leases() {
				w := ls.Leases[k]
				gw := l.TunnelGateway()
				dt := l.Date()
				if ok && !(bytes.Equal(gw[:], w[:32]) && l.TunnelID() == uint32(beU64(w[32:36])) && bytes.Equal(dt[:], w[36:44])) {
					ok, why = false, fmt.Sprintf("lease %d fields differ", k)
				}
			}
		}
		check("ReadLeaseSet", ok, in, fmt.Sprintf("%d leases: %s", cnt, why))
	}
	// ---------- LeaseSet2
	for i := 0; i < n; i++ {
		l := genLeaseSet2(r)
		nk, nl := 1+i%16, (i/3)%17
		l.Keys, l.Leases = nil, nil
		for k := 0; k < nk; k++ {
			l.Keys = append(l.Keys, genEncKey(r))
		}
		for k := 0; k < nl; k++ {
			l.Leases = append(l.Leases, genLease2(r))
		}
		tail := tails()
		enc := l.Encode()
		in := cat(enc, tail)
		p := runParser(c, byName["ReadLeaseSet2"], in, nil)
		if len(in) < lease_set2.LEASESET2_MIN_SIZE {
			continue // whole-input guard: finding D6, reported under C03
		}
		ok, why := p.OK, "rejected"
		if ok {
			v := p.Val.(*lease_set2.LeaseSet2)
			d := v.Destination()
			ok, why = identFieldsEqual(d.KeysAndCert, l.H.Dest)
			sg := v.Signature()
			if ok && !(v.Published() == l.H.Published && v.Expires() == l.H.Expires && v.Flags() == l.H.Flags && offlineEqual(v.OfflineSignature(), l.H.Offline) &&
				mappingPairsEqual(v.Options(), l.H.Options) && v.EncryptionKeyCount() == nk && v.LeaseCount() == nl && bytes.Equal(sg.Bytes(), l.Sig) && bytes.Equal(p.Rem, tail)) {
				ok, why = false, "header / offline / options / counts / signature / extent differ"
			}
			for k, ek := range v.EncryptionKeys() {
				if ok && !(int(ek.KeyType) == l.Keys[k].Type && int(ek.KeyLen) == len(l.Keys[k].Data) && bytes.Equal(ek.KeyData, l.Keys[k].Data)) {
					ok, why = false, fmt.Sprintf("encryption key %d differs", k)
				}
			}
			for k, le := range v.Leases() {
				w := l.Leases[k]
				gw := le.TunnelGateway()
				if ok && !(bytes.Equal(gw[:], w[:32]) && le.TunnelID() == uint32(beU64(w[32:36])) && le.EndDate() == uint32(beU64(w[36:40]))) {
					ok, why = false, fmt.Sprintf("lease %d differs", k)
				}
			}
		}
		check("ReadLeaseSet2", ok, in, fmt.Sprintf("%d keys %d leases offline=%v options=%d: %s", nk, nl, l.H.Offline != nil, len(l.H.Options), why))
	}
	// ---------- MetaLeaseSet
	for i := 0; i < n; i++ {
		m := genMeta(r)
		ne := 1 + i%16
		m.Entries = nil
		for k := 0; k < ne; k++ {
			m.Entries = append(m.Entries, MetaEntry{r.Bytes(32), []int{1, 3, 5}[r.Intn(3)], uint32(r.U64()), r.Intn(256), genSmallKVs(r)})
		}
		tail := tails()
		in := cat(m.Encode(), tail)
		p := runParser(c, byName["ReadMetaLeaseSet"], in, nil)
		if len(in) < meta_leaseset.META_LEASESET_MIN_SIZE {
			continue
		}
		ok, why := p.OK, "rejected"
		if ok {
			v := p.Val.(*meta_leaseset.MetaLeaseSet)
			d := v.Destination()
			ok, why = identFieldsEqual(d.KeysAndCert, m.H.Dest)
			sg := v.Signature()
			if ok && !(v.Published() == m.H.Published && v.Expires() == m.H.Expires && v.Flags() == m.H.Flags && offlineEqual(v.OfflineSignature(), m.H.Offline) &&
				mappingPairsEqual(v.Options(), m.H.Options) && v.NumEntries() == ne && bytes.Equal(sg.Bytes(), m.Sig) && bytes.Equal(p.Rem, tail)) {
				ok, why = false, "header / offline / options / count / signature / extent differ"
			}
			for k, e := range v.Entries() {
				w := m.Entries[k]
				h := e.Hash()
				if ok && !(bytes.Equal(h[:], w.Hash) && int(e.Type()) == w.Type && e.Expires() == w.Expires && int(e.Cost()) == w.Cost && mappingPairsEqual(e.Properties(), w.Props)) {
					ok, why = false, fmt.Sprintf("entry %d differs", k)
				}
			}
		}
		check("ReadMetaLeaseSet", ok, in, fmt.Sprintf("%d entries: %s", ne, why))
	}
	// ---------- EncryptedLeaseSet, RouterAddress, RouterInfo, Mapping
	for i := 0; i < n; i++ {
		e := genEncLS(r)
		tail := tails()
		in := cat(e.Encode(), tail)
		p := runParser(c, byName["ReadEncryptedLeaseSet"], in, nil)
		ok, why := p.OK, "rejected"
		if ok {
			v := p.Val.(*encrypted_leaseset.EncryptedLeaseSet)
			sg := v.Signature()
			ok = int(v.SigType()) == e.SigType && bytes.Equal(v.BlindedPublicKey(), e.Key) && v.Published() == e.Published && v.Expires() == e.Expires && v.Flags() == e.Flags &&
				offlineEqual(v.OfflineSignature(), e.Offline) && int(v.InnerLength()) == len(e.Inner) && bytes.Equal(v.EncryptedInnerData(), e.Inner) && bytes.Equal(sg.Bytes(), e.Sig) && bytes.Equal(p.Rem, tail)
			why = "fields differ"
		}
		check("ReadEncryptedLeaseSet", ok, in, why)

		a := genRouterAddr(r)
		in = cat(a.Encode(), tail)
		p = runParser(c, byName["ReadRouterAddress"], in, nil)
		ok, why = p.OK, "rejected"
		if ok {
			v := p.Val.(*router_address.RouterAddress)
			style, _ := v.TransportStyle().Data()
			exp := v.Expiration()
			ok = v.Cost() == a.Cost && beU64(exp[:]) == a.Date && style == string(a.Style) && mappingPairsEqual(v.Options(), a.Opts) && bytes.Equal(p.Rem, tail)
			why = "fields differ"
		}
		check("ReadRouterAddress", ok, in, why)

		ri := genRouterInfo(r)
		ri.Addrs = nil
		for k := 0; k < i%6; k++ {
			ri.Addrs = append(ri.Addrs, genRouterAddr(r))
		}
		in = cat(ri.Encode(), tail)
		p = runParser(c, byName["ReadRouterInfo"], in, nil)
		ok, why = p.OK, "rejected"
		if ok {
			v := p.Val.(*router_info.RouterInfo)
			ok, why = identFieldsEqual(v.RouterIdentity().KeysAndCert, ri.Ident)
			sg := v.Signature()
			if ok && !(beU64(v.Published()[:]) == ri.Published && v.RouterAddressCount() == len(ri.Addrs) && v.PeerSize() == ri.PeerSize && mappingPairsEqual(v.Options(), ri.Opts) && bytes.Equal(sg.Bytes(), ri.Sig) && bytes.Equal(p.Rem, tail)) {
				ok, why = false, "published / counts / options / signature / extent differ"
			}
			for k, ad := range v.RouterAddresses() {
				style, _ := ad.TransportStyle().Data()
				if ok && !(ad.Cost() == ri.Addrs[k].Cost && style == string(ri.Addrs[k].Style) && mappingPairsEqual(ad.Options(), ri.Addrs[k].Opts)) {
					ok, why = false, fmt.Sprintf("address %d differs", k)
				}
			}
		}
		check("ReadRouterInfo", ok, in, why)

		kvs := genKVs(r, 8)
		if i%3 == 0 {
			kvs = genSmallKVs(r)
		}
		in = cat(encodeMapping(kvs), tail)
		p = runParser(c, byName["ReadMapping"], in, nil)
		ok = p.OK && mappingPairsEqual(*p.Val.(*data.Mapping), kvs) && bytes.Equal(p.Rem, tail)
		check("ReadMapping", ok, in, fmt.Sprintf("%d pairs", len(kvs)))
	}
	// ---------- the other direction: library constructors -> independent decoder
	enc2 := func(name string, ok bool, b []byte, detail string) {
		c.Check("constructed_value_decodes_to_same_fields", ok, name, [][]byte{b}, "", detail)
	}
	for i := 0; i < n; i++ {
		k := genEd(r)
		priv := cryptoed.Ed25519PrivateKey(k.priv)
		// mapping
		gm := genOptionsMap(r)
		if m, err := data.GoMapToMapping(gm); err == nil {
			b := m.Data()
			sr := &specReader{b: b}
			got := sr.mapping()
			okm := !sr.err && len(sr.b) == 0 && len(got) == len(gm)
			for _, kv := range got {
				if v, present := gm[string(kv.K)]; !present || v != string(kv.V) {
					okm = false
				}
			}
			for j := 1; j < len(got); j++ {
				if string(got[j-1].K) >= string(got[j].K) {
					okm = false
				}
			}
			enc2("GoMapToMapping", okm, b, "independent decoder does not read the same (sorted) pairs")
		}
		// router address + router info
		rid := genSignedIdent(r, k, 7, true)
		if ri, _, rerr := router_identity.ReadRouterIdentity(rid.Encode()); rerr == nil {
			var addrs []*router_address.RouterAddress
			var aopts []map[string]string
			for j := 0; j < 1+i%4; j++ {
				om := genOptionsMap(r)
				if a, e := router_address.NewRouterAddress(uint8(j*7), time.Time{}, []string{"NTCP2", "SSU2"}[j%2], om); e == nil {
					addrs = append(addrs, a)
					aopts = append(aopts, om)
				}
			}
			pubMs := int64(1 + r.U64()>>22)
			om := genOptionsMap(r)
			if info, nerr := router_info.NewRouterInfo(ri, time.UnixMilli(pubMs), addrs, om, &priv, 7); nerr == nil {
				b, _ := info.Bytes()
				sr := &specReader{b: b}
				id2 := sr.ident()
				pub := sr.u64()
				na := sr.u8()
				okr := !sr.err && bytes.Equal(id2.Encode(), rid.Encode()) && int64(pub) == pubMs && na == len(addrs)
				for j := 0; okr && j < na; j++ {
					cost := sr.u8()
					date := sr.u64()
					style := sr.take(sr.u8())
					opts := sr.mapping()
					okr = !sr.err && cost == j*7 && date == 0 && string(style) == []string{"NTCP2", "SSU2"}[j%2] && len(opts) == len(aopts[j])
					for _, kv := range opts {
						if v, present := aopts[j][string(kv.K)]; !present || v != string(kv.V) {
							okr = false
						}
					}
				}
				peer := sr.u8()
				opts := sr.mapping()
				sig := sr.take(64)
				okr = okr && !sr.err && len(sr.b) == 0 && peer == 0 && len(opts) == len(om) && len(sig) == 64
				for _, kv := range opts {
					if v, present := om[string(kv.K)]; !present || v != string(kv.V) {
						okr = false
					}
				}
				enc2("NewRouterInfo", okr, b, "independent decoder does not read the constructor's arguments back")
			}
		}
		// lease set
		did := genSignedIdent(r, k, []int{7, 11}[i%2], false)
		if d, _, derr := destination.ReadDestination(did.Encode()); derr == nil {
			encB := r.Bytes(256)
			encB[0] &= 0x7f
			encB[255] |= 2
			var ek elg.ElgPublicKey
			copy(ek[:], encB)
			spk, _ := d.SigningPublicKey()
			var leases []lease.Lease
			var raw [][]byte
			for j := 0; j < i%17; j++ {
				gw := r.Bytes(32)
				tid := uint32(r.U64())
				ms := int64(r.U64() >> 20)
				var h data.Hash
				copy(h[:], gw)
				l, _ := lease.NewLease(h, tid, time.UnixMilli(ms))
				leases = append(leases, *l)
				raw = append(raw, cat(gw, u32(tid), u64e(uint64(ms))))
			}
			if ls, nerr := lease_set.NewLeaseSet(d, ek, spk, leases, &priv); nerr == nil {
				b, _ := ls.Bytes()
				sr := &specReader{b: b}
				id2 := sr.ident()
				e2 := sr.take(256)
				s2 := sr.take(32)
				cnt := sr.u8()
				okl := !sr.err && bytes.Equal(id2.Encode(), did.Encode()) && bytes.Equal(e2, encB) && bytes.Equal(s2, k.pub) && cnt == len(leases)
				for j := 0; okl && j < cnt; j++ {
					okl = bytes.Equal(sr.take(44), raw[j])
				}
				sg := sr.take(64)
				okl = okl && !sr.err && len(sr.b) == 0 && ed25519.Verify(k.pub, b[:len(b)-64], sg)
				enc2("NewLeaseSet", okl, b, "independent decoder does not read the constructor's arguments back")
			}
			// LeaseSet2 (content only: its signature is a placeholder, finding D7 under C06)
			var opts data.Mapping
			om := genOptionsMap(r)
			if m, merr := data.GoMapToMapping(om); merr == nil {
				opts = *m
			}
			var keys []lease_set2.EncryptionKey
			for j := 0; j < 1+i%16; j++ {
				kd := r.Bytes(32)
				keys = append(keys, lease_set2.EncryptionKey{KeyType: 4, KeyLen: 32, KeyData: kd})
			}
			var l2s []lease.Lease2
			var raw2 [][]byte
			for j := 0; j < 1+(i/2)%16; j++ {
				gw := r.Bytes(32)
				tid := uint32(r.U64())
				sec := int64(r.U64() >> 33)
				var h data.Hash
				copy(h[:], gw)
				l, e := lease.NewLease2(h, tid, time.Unix(sec, 0))
				if e != nil {
					continue
				}
				l2s = append(l2s, *l)
				raw2 = append(raw2, cat(gw, u32(tid), u32(uint32(sec))))
			}
			pubS, expS, fl := uint32(r.U64()), uint16(r.U64()), uint16(r.Intn(4))<<1
			if l2, nerr := lease_set2.NewLeaseSet2(d, pubS, expS, fl, nil, opts, keys, l2s, ed25519.PrivateKey(k.priv)); nerr == nil {
				b, _ := l2.Bytes()
				sr := &specReader{b: b}
				id2 := sr.ident()
				ok2 := !sr.err && bytes.Equal(id2.Encode(), did.Encode()) && sr.u32() == pubS && sr.u16() == int(expS) && sr.u16() == int(fl)
				o2 := sr.mapping()
				ok2 = ok2 && !sr.err && len(o2) == len(om)
				for _, kv := range o2 {
					if v, present := om[string(kv.K)]; !present || v != string(kv.V) {
						ok2 = false
					}
				}
				nk := sr.u8()
				ok2 = ok2 && nk == len(keys)
				for j := 0; ok2 && j < nk; j++ {
					ok2 = sr.u16() == 4 && sr.u16() == 32 && bytes.Equal(sr.take(32), keys[j].KeyData)
				}
				nl := sr.u8()
				ok2 = ok2 && nl == len(l2s)
				for j := 0; ok2 && j < nl; j++ {
					ok2 = bytes.Equal(sr.take(40), raw2[j])
				}
				sr.take(64)
				ok2 = ok2 && !sr.err && len(sr.b) == 0
				enc2("NewLeaseSet2", ok2, b, "independent decoder does not read the constructor's arguments back")
			}
		}
		// encrypted lease set, with and without offline keys
		for _, offline := range []bool{false, true} {
			inner := r.Bytes(61 + r.Intn(80))
			pubS, expS := uint32(r.U64()), 1+uint16(r.U64()%65535)
			fl := uint16(r.Intn(2)) << 1
			var off *offline_signature.OfflineSignature
			signer := interface{}(ed25519.PrivateKey(k.priv))
			var oexp uint32
			var tpub []byte
			if offline {
				t := genEd(r)
				oexp = 1 + uint32(r.U64()>>33)
				o, oerr := offline_signature.CreateOfflineSignature(oexp, 7, t.pub, ed25519.PrivateKey(k.priv), 7)
				if oerr != nil {
					continue
				}
				off, fl, signer, tpub = &o, fl|1, ed25519.PrivateKey(t.priv), t.pub
			}
			e, nerr := encrypted_leaseset.NewEncryptedLeaseSet(7, cp(k.pub), pubS, expS, fl, off, inner, signer)
			if nerr != nil {
				continue
			}
			b, _ := e.Bytes()
			sr := &specReader{b: b}
			oke := sr.u16() == 7 && bytes.Equal(sr.take(32), k.pub) && sr.u32() == pubS && sr.u16() == int(expS) && sr.u16() == int(fl)
			if offline {
				oke = oke && sr.u32() == oexp && sr.u16() == 7 && bytes.Equal(sr.take(32), tpub)
				osig := sr.take(64)
				oke = oke && !sr.err && ed25519.Verify(k.pub, cat(u32(oexp), u16(7), tpub), osig)
			}
			oke = oke && sr.u16() == len(inner) && bytes.Equal(sr.take(len(inner)), inner)
			sg := sr.take(64)
			oke = oke && !sr.err && len(sr.b) == 0
			if oke {
				vk := k.pub
				if offline {
					vk = tpub
				}
				oke = ed25519.Verify(vk, cat([]byte{5}, b[:len(b)-64]), sg)
			}
			enc2("NewEncryptedLeaseSet", oke, b, fmt.Sprintf("offline=%v: independent decoder / verifier does not read the constructor's arguments back", offline))
		}
	}
}
