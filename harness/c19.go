package main

import (
	"bytes"
	"fmt"
	"reflect"
	"sort"
	"time"

	"github.com/go-i2p/common/certificate"
	"github.com/go-i2p/common/data"
	"github.com/go-i2p/common/destination"
	"github.com/go-i2p/common/key_certificate"
	"github.com/go-i2p/common/keys_and_cert"
	"github.com/go-i2p/common/lease"
	"github.com/go-i2p/common/router_identity"
	"github.com/go-i2p/common/session_key"
	"github.com/go-i2p/common/session_tag"
	"github.com/go-i2p/common/signature"
)

func init() { props["C19"] = runC19 }

type alt struct {
	ok         bool
	bytes, rem []byte
}

func agree(a, b alt) bool {
	if a.ok != b.ok {
		return false
	}
	if !a.ok {
		return true
	}
	return bytes.Equal(a.bytes, b.bytes) && bytes.Equal(a.rem, b.rem)
}

func kacAlt(k *keys_and_cert.KeysAndCert, rem []byte, err error) alt {
	if err != nil || k == nil {
		return alt{}
	}
	b, e := k.Bytes()
	if e != nil {
		return alt{}
	}
	return alt{true, b, rem}
}

// C19: alternative entry points for the same structure agree.
func runC19(c *Ctx) {
	r := c.R
	pair := func(name string, input []byte, extra [][]byte, a, b alt) {
		c.Check("entry_points_agree", agree(a, b), name, append([][]byte{input}, extra...), "",
			fmt.Sprintf("A: ok=%v bytes=%d rem=%d; B: ok=%v bytes=%d rem=%d", a.ok, len(a.bytes), len(a.rem), b.ok, len(b.bytes), len(b.rem)))
	}
	byName := map[string]*Parser{}
	for i := range parsers {
		byName[parsers[i].Name] = &parsers[i]
	}
	// generic vs typed keys-and-cert readers, on inputs declaring those types
	for _, cfg := range []struct {
		typed  string
		sig    []int
		crypto []int
		f      func([]byte) (*keys_and_cert.KeysAndCert, []byte, error)
	}{
		{"ReadKeysAndCertElgAndEd25519", []int{7}, []int{0}, keys_and_cert.ReadKeysAndCertElgAndEd25519},
		{"ReadKeysAndCertX25519AndEd25519", []int{7}, []int{4}, keys_and_cert.ReadKeysAndCertX25519AndEd25519},
	} {
		p := byName[cfg.typed]
		for i := 0; i < c.N(150, 5000); i++ {
			id := genIdentTypes(r, cfg.sig[r.Intn(len(cfg.sig))], cfg.crypto[r.Intn(len(cfg.crypto))], false)
			w := id.Encode()
			switch r.Intn(4) {
			case 0:
				w = cat(w, r.Bytes(r.Intn(50)))
			case 1:
				w = w[:r.Intn(len(w)+1)]
			case 2:
				if len(w) > 391 { // mutate outside the declared types
					j := r.Intn(len(w))
					if j < 387 || j > 390 {
						w[j] ^= byte(1 + r.Intn(255))
					}
				}
			}
			runParser(c, p, w, nil)
			runParser(c, byName["ReadKeysAndCert"], w, nil)
			pair(cfg.typed+" vs ReadKeysAndCert", w, nil, kacAlt(cfg.f(w)), kacAlt(keys_and_cert.ReadKeysAndCert(w)))
		}
	}
	// value- vs pointer-returning readers, wrappers
	for i := 0; i < c.N(300, 8000); i++ {
		var w []byte
		switch r.Intn(3) {
		case 0:
			w = genAnyIdent(r).Encode()
		case 1:
			w = genDestIdent(r).Encode()
		default:
			w = genRouterIdent(r).Encode()
		}
		if r.Intn(3) == 0 {
			w = mutateFields(r, w)
		}
		if r.Intn(3) == 0 {
			w = cat(w, r.Bytes(r.Intn(30)))
		}
		if r.Intn(6) == 0 {
			w = w[:r.Intn(len(w)+1)]
		}
		// Destination
		d, rem, err := destination.ReadDestination(w)
		a := kacAlt(d.KeysAndCert, rem, err)
		dp, rem2, err2 := destination.NewDestinationFromBytes(w)
		var b alt
		if err2 == nil && dp != nil {
			b = kacAlt(dp.KeysAndCert, rem2, nil)
		}
		runParser(c, byName["ReadDestination"], w, nil)
		pair("ReadDestination vs NewDestinationFromBytes", w, nil, a, b)
		// destination wrapper vs generic reader + NewDestination
		k, rem3, err3 := keys_and_cert.ReadKeysAndCert(w)
		var cA alt
		if err3 == nil {
			if nd, e := destination.NewDestination(k); e == nil {
				cA = kacAlt(nd.KeysAndCert, rem3, nil)
			}
		}
		pair("ReadDestination vs NewDestination(ReadKeysAndCert)", w, nil, a, cA)
		// RouterIdentity
		ri, rrem, rerr := router_identity.ReadRouterIdentity(w)
		var ra alt
		if rerr == nil && ri != nil {
			ra = kacAlt(ri.KeysAndCert, rrem, nil)
		}
		ri2, rrem2, rerr2 := router_identity.NewRouterIdentityFromBytes(w)
		var rb alt
		if rerr2 == nil && ri2 != nil {
			rb = kacAlt(ri2.KeysAndCert, rrem2, nil)
		}
		runParser(c, byName["ReadRouterIdentity"], w, nil)
		pair("ReadRouterIdentity vs NewRouterIdentityFromBytes", w, nil, ra, rb)
	}
	// certificates: bytes vs from-certificate vs with-types vs builder
	var reusedBuilder *certificate.CertificateBuilder
	for i := 0; i < c.N(300, 8000); i++ {
		s := []int{0, 1, 2, 3, 4, 5, 6, 7, 8, 9, 11, 12, 255, 65280, 65534, 65535}[r.Intn(16)]
		cr := []int{0, 1, 2, 3, 4, 5, 6, 7, 8, 255, 65280, 65534, 65535}[r.Intn(13)]
		var extra []byte // excess key data / surplus payload beyond the two type codes
		if r.Bool() {
			extra = r.Bytes(1 + r.Intn(12))
		}
		w := cat([]byte{5}, u16(4+len(extra)), u16(s), u16(cr), extra)
		tail := r.Bytes(r.Intn(5))
		in := cat(w, tail)
		runParser(c, byName["NewKeyCertificate"], in, nil)
		kc, rem, err := key_certificate.NewKeyCertificate(in)
		var a alt
		if err == nil {
			a = alt{true, kc.Bytes(), rem}
		}
		ce, crem, cerr := certificate.ReadCertificate(in)
		var b alt
		if cerr == nil {
			if k2, e := key_certificate.KeyCertificateFromCertificate(ce); e == nil {
				b = alt{true, k2.Bytes(), crem}
			}
		}
		pair("NewKeyCertificate vs KeyCertificateFromCertificate(ReadCertificate)", in, nil, a, b)
		// constructors (no remainder): WithTypes vs builder vs BuildKeyTypePayload, where WithTypes accepts
		c.Case(E_NewKeyCertificateWithTypes, [][]byte{i64(int64(s)), i64(int64(cr))}, func() Obs {
			k, e := key_certificate.NewKeyCertificateWithTypes(s, cr)
			if e != nil {
				return ERR()
			}
			return OK(k.Bytes())
		})
		k3, e3 := key_certificate.NewKeyCertificateWithTypes(s, cr)
		if e3 == nil {
			var bc *certificate.Certificate
			// a fresh builder on even iterations, one builder reused across iterations on odd ones
			if reusedBuilder == nil || i%2 == 0 {
				reusedBuilder = certificate.NewCertificateBuilder()
			}
			bld, be := reusedBuilder.WithKeyTypes(s, cr)
			if be == nil {
				bc, be = bld.Build()
			}
			pl, pe := certificate.BuildKeyTypePayload(s, cr)
			ok := be == nil && pe == nil && bytes.Equal(bc.Bytes(), k3.Bytes()) && bytes.Equal(cat([]byte{5, 0, 4}, pl), k3.Bytes()) && bytes.Equal(k3.Bytes(), cat([]byte{5, 0, 4}, u16(s), u16(cr)))
			c.Check("entry_points_agree", ok, "NewKeyCertificateWithTypes vs builder vs BuildKeyTypePayload", [][]byte{i64(int64(s)), i64(int64(cr))}, "", "constructed key certificates differ")
		}
	}
	// signatures
	for i := 0; i < c.N(300, 8000); i++ {
		ex := genSigTypeArg(r)
		t := int(int64(beU64(ex[0])))
		n := []int{0, 39, 40, 41, 63, 64, 65, 96, 132, 256, 384, 512, 600}[r.Intn(13)]
		w := r.Bytes(n)
		runParser(c, byName["ReadSignature"], w, ex)
		s1, rem1, e1 := signature.ReadSignature(w, t)
		var a alt
		if e1 == nil {
			a = alt{true, s1.Bytes(), rem1}
		}
		s2, rem2, e2 := signature.NewSignature(w, t)
		var b alt
		if e2 == nil && s2 != nil {
			b = alt{true, s2.Bytes(), rem2}
		}
		pair("ReadSignature vs NewSignature", w, ex, a, b)
		c.Case(E_NewSignatureFromBytes, [][]byte{w, ex[0]}, func() Obs {
			s, e := signature.NewSignatureFromBytes(w, t)
			if e != nil {
				return ERR()
			}
			return OK(s.Bytes())
		})
		s3, e3 := signature.NewSignatureFromBytes(w, t)
		// exact-length constructor agrees with the reader exactly when nothing remains
		want := a.ok && len(a.rem) == 0
		got := e3 == nil
		okk := want == got && (!got || bytes.Equal(s3.Bytes(), a.bytes))
		c.Check("entry_points_agree", okk, "ReadSignature vs NewSignatureFromBytes", [][]byte{w, ex[0]}, "", fmt.Sprintf("reader ok=%v rem=%d, exact ok=%v", a.ok, len(a.rem), got))
	}
	// one instant, every way of making a Date of it: from the wire, from milliseconds, from seconds,
	// from a time.Time — over the whole range of the 8-byte field below 2^63 ms
	{
		var instants []int64
		for k := uint(0); k < 63; k++ {
			instants = append(instants, int64(1)<<k, int64(1)<<k-1, (int64(1)<<k)/1000*1000)
		}
		for i := 0; i < c.N(60, 2000); i++ {
			instants = append(instants, int64(r.U64()>>(1+uint(r.Intn(62)))))
		}
		for _, ms := range instants {
			if ms < 0 {
				continue
			}
			w := beBytes(uint64(ms), 8)
			var views []string
			var outs [][]byte
			add := func(name string, b []byte, ok bool) {
				if ok {
					views = append(views, name)
					outs = append(outs, cp(b))
				}
			}
			if v, _, e := data.ReadDate(w); e == nil {
				add("ReadDate", v.Bytes(), true)
			}
			if d, e := data.NewDateFromMillis(ms); e == nil && d != nil {
				add("NewDateFromMillis", d.Bytes(), true)
			}
			if d, e := data.DateFromTime(time.UnixMilli(ms)); e == nil && d != nil {
				add("DateFromTime", d.Bytes(), true)
			}
			if ms%1000 == 0 {
				if d, e := data.NewDateFromUnix(ms / 1000); e == nil && d != nil {
					add("NewDateFromUnix", d.Bytes(), true)
				}
			}
			same := len(outs) >= 3
			for _, o := range outs {
				same = same && bytes.Equal(o, w)
			}
			c.Check("entry_points_agree", same, "Date entry points", [][]byte{i64(ms)}, "", fmt.Sprintf("ms=%d: %v give %x", ms, views, outs))
		}
	}
	// fixed-size readers: value vs pointer
	for i := 0; i < c.N(200, 4000); i++ {
		w := r.Bytes(r.Intn(60))
		{
			v, rem, e := lease.ReadLease(w)
			p, rem2, e2 := lease.NewLeaseFromBytes(w)
			var a, b alt
			if e == nil {
				a = alt{true, v.Bytes(), rem}
			}
			if e2 == nil && p != nil {
				b = alt{true, p.Bytes(), rem2}
			}
			pair("ReadLease vs NewLeaseFromBytes", w, nil, a, b)
		}
		{
			v, rem, e := data.ReadDate(w)
			p, rem2, e2 := data.NewDate(w)
			var a, b alt
			if e == nil {
				a = alt{true, v.Bytes(), rem}
			}
			if e2 == nil && p != nil {
				b = alt{true, p.Bytes(), rem2}
			}
			pair("ReadDate vs NewDate", w, nil, a, b)
		}
		{
			v, rem, e := session_key.ReadSessionKey(w)
			p, rem2, e2 := session_key.NewSessionKey(w)
			var a, b alt
			if e == nil {
				a = alt{true, cp(v[:]), rem}
			}
			if e2 == nil && p != nil {
				b = alt{true, cp(p[:]), rem2}
			}
			pair("ReadSessionKey vs NewSessionKey", w, nil, a, b)
		}
		{
			v, rem, e := session_tag.ReadSessionTag(w)
			p, rem2, e2 := session_tag.NewSessionTag(w)
			var a, b alt
			if e == nil {
				a = alt{true, v.Bytes(), rem}
			}
			if e2 == nil && p != nil {
				b = alt{true, p.Bytes(), rem2}
			}
			pair("ReadSessionTag vs NewSessionTag", w, nil, a, b)
		}
		{
			v, rem, e := session_tag.ReadECIESSessionTag(w)
			p, rem2, e2 := session_tag.NewECIESSessionTag(w)
			var a, b alt
			if e == nil {
				a = alt{true, v.Bytes(), rem}
			}
			if e2 == nil && p != nil {
				b = alt{true, p.Bytes(), rem2}
			}
			pair("ReadECIESSessionTag vs NewECIESSessionTag", w, nil, a, b)
		}
		{
			m, rem, errs := data.ReadMapping(w)
			p, rem2, errs2 := data.NewMapping(w)
			a := alt{!mappingFatal(errs), m.Data(), rem}
			b := alt{!mappingFatal(errs2), p.Data(), rem2}
			pair("ReadMapping vs NewMapping", w, nil, a, b)
		}
		// strings and integers
		s := r.Bytes(r.Intn(300))
		s1, e1 := data.NewI2PString(string(s))
		s2, e2 := data.ToI2PString(string(s))
		c.Check("entry_points_agree", (e1 == nil) == (e2 == nil) && bytes.Equal(s1, s2), "NewI2PString vs ToI2PString", [][]byte{s}, "", "differ")
		// the same question again for the same string (short ones: option keys recur), after the
		// caller has written into the results it was given: the two entry points still agree
		if i%2 == 0 {
			s = []byte([]string{"host", "port", "caps", "s", "i", "v", "netId", "router.version", ""}[r.Intn(9)])
		}
		for rep := 0; rep < 2; rep++ {
			t1, f1 := data.NewI2PString(string(s))
			t2, f2 := data.ToI2PString(string(s))
			okr := (f1 == nil) == (f2 == nil) && bytes.Equal(t1, t2) && (f1 != nil || (len(t1) == len(s)+1 && string(t1[1:]) == string(s)))
			c.Check("entry_points_agree", okr, "NewI2PString vs ToI2PString", [][]byte{s}, "", fmt.Sprintf("differ on call %d for the same string (earlier results were overwritten by the caller): %x vs %x", rep+1, []byte(t1), []byte(t2)))
			scribble(t1)
			scribble(t2)
		}
		v := int(r.U64() >> uint(r.Intn(64)))
		sz := r.Intn(10)
		i1, ie1 := data.NewIntegerFromInt(v, sz)
		i2, ie2 := data.EncodeIntN(v, sz)
		okk := (ie1 == nil) == (ie2 == nil) && (ie1 != nil || bytes.Equal(i1.Bytes(), i2))
		c.Check("entry_points_agree", okk, "NewIntegerFromInt vs EncodeIntN", [][]byte{i64(int64(v)), i64(int64(sz))}, "", "differ")
	}
	c19SignatureTwins(c)
}

// c19SignatureTwins: alternative entry points found by signature rather than by name. The list of
// exported functions taking a byte slice (and integers) is regenerated from the source by the
// translator, with their shapes; every two functions of one package that take the same arguments
// and return the same type (by value or by pointer), the same optional remainder and an error are
// run on the same inputs: when both accept they must yield the same serialisation and remainder,
// and they must accept the same inputs — except where one is a restricted reader by design.
func c19SignatureTwins(c *Ctx) {
	r := c.R
	subsetByDesign := map[string]bool{ // accept only inputs declaring their fixed key layout
		"keys_and_cert.ReadKeysAndCertElgAndEd25519":    true,
		"keys_and_cert.ReadKeysAndCertX25519AndEd25519": true,
	}
	groups := map[string][]string{}
	for name, shape := range apiByteFuncShape {
		groups[shape] = append(groups[shape], name)
	}
	var shapes []string
	for sh, g := range groups {
		if len(g) >= 2 {
			sort.Strings(g)
			shapes = append(shapes, sh)
		}
	}
	sort.Strings(shapes)
	project := func(res []interface{}) alt {
		if len(res) < 2 {
			return alt{}
		}
		switch e := res[len(res)-1].(type) {
		case nil:
		case error:
			if e != nil {
				return alt{}
			}
		case []error:
			if mappingFatal(e) {
				return alt{}
			}
		default:
			return alt{}
		}
		v := reflect.ValueOf(res[0])
		if !v.IsValid() || (v.Kind() == reflect.Ptr && v.IsNil()) {
			return alt{}
		}
		if v.Kind() != reflect.Ptr {
			pv := reflect.New(v.Type())
			pv.Elem().Set(v)
			v = pv
		}
		a := alt{ok: true}
		a.bytes = reserialise(v.Interface())
		if a.bytes == nil {
			e := v.Elem()
			switch e.Kind() {
			case reflect.Slice:
				if e.Type().Elem().Kind() == reflect.Uint8 {
					a.bytes = cp(e.Bytes())
				}
			case reflect.Array:
				if e.Type().Elem().Kind() == reflect.Uint8 {
					for i := 0; i < e.Len(); i++ {
						a.bytes = append(a.bytes, byte(e.Index(i).Uint()))
					}
				}
			}
		}
		if len(res) == 3 {
			if rem, ok := res[1].([]byte); ok {
				a.rem = rem
			}
		}
		return a
	}
	var pool [][]byte
	for i := range parsers {
		if parsers[i].Gen == nil {
			continue
		}
		for k := 0; k < c.N(6, 60); k++ {
			w := parsers[i].Gen(r)
			pool = append(pool, w, cat(w, r.Bytes(1+r.Intn(40))))
			if len(w) > 0 {
				pool = append(pool, w[:r.Intn(len(w))])
			}
		}
	}
	for n := 0; n <= 70; n++ {
		pool = append(pool, r.Bytes(n))
	}
	for _, sh := range shapes {
		g := groups[sh]
		for _, in := range pool {
			n := r.Intn(13)
			outs := make([]alt, len(g))
			for i, name := range g {
				func() {
					defer func() { _ = recover() }() // panics are C04's concern
					outs[i] = project(apiByteFuncResults[name](cp(in), n))
				}()
			}
			for i := 0; i < len(g); i++ {
				for j := i + 1; j < len(g); j++ {
					a, b := outs[i], outs[j]
					ok := true
					if a.ok && b.ok {
						ok = bytes.Equal(a.bytes, b.bytes) && bytes.Equal(a.rem, b.rem)
					} else if a.ok != b.ok && !subsetByDesign[g[i]] && !subsetByDesign[g[j]] {
						ok = false
					}
					c.Check("entry_points_agree", ok, g[i]+" vs "+g[j]+" (same signature)", [][]byte{in, i64(int64(n))}, "",
						fmt.Sprintf("A: ok=%v bytes=%d rem=%d; B: ok=%v bytes=%d rem=%d", a.ok, len(a.bytes), len(a.rem), b.ok, len(b.bytes), len(b.rem)))
				}
			}
		}
	}
}
