package main

import (
	"github.com/go-i2p/common/data"
	"bytes"
	"crypto/sha256"
	"fmt"
	"github.com/go-i2p/common/keys_and_cert"

	"github.com/go-i2p/common/base64"
	"github.com/go-i2p/common/destination"
	"github.com/go-i2p/common/router_identity"
	"github.com/go-i2p/common/router_info"
)

func init() { props["C07"] = runC07 }

// C07: hashes and addresses are pure functions of the identity's wire bytes.
func runC07(c *Ctx) {
	r := c.R
	one := func(id Ident, tail []byte) {
		// other users of the library's hashing between our calls: a streaming hash whose reader fails
		// part-way, a streaming hash that succeeds, a one-shot hash of unrelated data. A hash is a
		// function of its own input only, whatever was hashed (or abandoned) before
		if junk := r.Bytes(1 + r.Intn(200)); true {
			data.HashReader(&failingReader{b: junk, failAt: r.Intn(len(junk) + 1)})
			hr, herr := data.HashReader(bytes.NewReader(junk))
			wantJ := sha256.Sum256(junk)
			c.Check("hash_is_sha256_of_wire_bytes", herr == nil && hr == wantJ && data.HashData(junk) == wantJ, "HashReader / HashData", [][]byte{junk}, "",
				"the library's SHA-256 of a byte string differs from crypto/sha256 after an abandoned streaming hash")
		}
		w := id.Encode()
		in := cat(w, tail)
		h := sha256.Sum256(w)
		d, rem, err := destination.ReadDestination(in)
		destOK := err == nil
		if destOK {
			var b32, b64 string
			c.Case(E_DestAddresses, [][]byte{in, h[:]}, func() Obs {
				bs, e1 := d.Bytes()
				a, e2 := d.Base32Address()
				s, e3 := d.Base64()
				if e1 != nil || e2 != nil || e3 != nil {
					return ERR()
				}
				b32, b64 = a, s
				return OK(bs, []byte(a), []byte(s))
			})
			hh, herr := d.Hash()
			want32 := bitEncode(h[:], 5, alpha32, 8, false) + ".b32.i2p"
			dec, derr := base64.DecodeString(b64)
			ok := herr == nil && hh == h && b32 == want32 && len(b32) == 60 && derr == nil && bytes.Equal(dec, w) && bytes.Equal(rem, tail)
			c.Check("hash_and_addresses_of_wire_bytes", ok, "Destination.Hash/Base32Address/Base64", [][]byte{in}, "",
				fmt.Sprintf("hash ok=%v b32=%q want %q b64 round trip=%v", hh == h, b32, want32, derr == nil && bytes.Equal(dec, w)))
		}
		// RouterIdentity / RouterInfo.IdentHash
		if ri, _, rerr := router_identity.ReadRouterIdentity(in); rerr == nil && ri != nil {
			rb, _ := ri.Bytes()
			c.Check("router_identity_bytes_are_wire_bytes", bytes.Equal(rb, w), "RouterIdentity.Bytes", [][]byte{in}, "", "differs")
			slen := specSigLen[id.SigType]
			if id.NullCert {
				slen = 40
			}
			riB := cat(w, u64e(1700000000000), []byte{0, 0, 0, 0}, r.Bytes(slen))
			if info, _, ierr := router_info.ReadRouterInfo(riB); ierr == nil {
				ih, herr := info.IdentHash()
				c.Check("ident_hash_of_identity_bytes", herr == nil && [32]byte(ih) == h, "RouterInfo.IdentHash", [][]byte{riB}, "", "IdentHash != SHA-256(identity bytes)")
			}
		}
		if !destOK {
			return
		}
		// equality coincides with byte equality; any single-byte difference changes hash and address
		same, _, _ := destination.ReadDestination(cat(w, r.Bytes(3)))
		c.Check("equal_iff_same_bytes", d.Equals(&same) && same.Equals(&d), "Destination.Equals", [][]byte{in}, "", "identical serialisations compare unequal")
		for k := 0; k < 6; k++ {
			m := cp(w)
			var pos int
			switch k {
			case 0:
				pos = r.Intn(len(id.Pub)) // crypto key
			case 1:
				pos = 384 - 1 - r.Intn(len(id.Spk)) // signing key
			case 2:
				if len(id.Pad) > 0 {
					pos = len(id.Pub) + r.Intn(len(id.Pad)) // padding
				}
			case 3:
				pos = len(w) - 1 // last certificate byte (payload, possibly extra payload)
			default:
				pos = r.Intn(len(w))
			}
			m[pos] ^= byte(1 + r.Intn(255))
			d2, _, err2 := destination.ReadDestination(m)
			if err2 != nil {
				continue
			}
			b2, berr := d2.Bytes()
			if berr != nil {
				continue
			}
			differ := !bytes.Equal(b2, w)
			h2, _ := d2.Hash()
			a1, _ := d.Base32Address()
			a2, _ := d2.Base32Address()
			s1, _ := d.Base64()
			s2, _ := d2.Base64()
			eq := d.Equals(&d2)
			ok := eq == !differ && d2.Equals(&d) == eq && (h2 != h) == differ && (a1 != a2) == differ && (s1 != s2) == differ
			c.Check("single_byte_difference_changes_identity", ok, "Destination.Equals/Hash/Base32Address", [][]byte{in, m}, "",
				fmt.Sprintf("byte %d changed: serialisations differ=%v Equals=%v hash differs=%v address differs=%v", pos, differ, eq, h2 != h, a1 != a2))
			ri1, _, e1 := router_identity.ReadRouterIdentity(w)
			ri2, _, e2 := router_identity.ReadRouterIdentity(m)
			if e1 == nil && e2 == nil {
				c.Check("single_byte_difference_changes_identity", ri1.Equal(ri2) == !differ, "RouterIdentity.Equal", [][]byte{in, m}, "", fmt.Sprintf("byte %d changed: Equal=%v", pos, ri1.Equal(ri2)))
			}
		}
	}
	// identities assembled from their parts (exported fields, as the key-generation code of a
	// router does) with every padding shape the constructor lets through: whatever Bytes() then
	// is, hash and addresses are those of exactly these bytes, and an Equals() re-parsed copy
	// shares them
	for i := 0; i < c.N(40, 600); i++ {
		id := genDestIdent(r)
		src, _, err := keys_and_cert.ReadKeysAndCert(id.Encode())
		if err != nil || src == nil {
			continue
		}
		for _, pad := range [][]byte{nil, {}, cp(src.Padding), cp(src.Padding[:len(src.Padding)/2]), cat(src.Padding, r.Bytes(5)), make([]byte, len(src.Padding))} {
			k := &keys_and_cert.KeysAndCert{KeyCertificate: src.KeyCertificate, ReceivingPublic: src.ReceivingPublic, Padding: pad, SigningPublic: src.SigningPublic}
			d, derr := destination.NewDestination(k)
			if derr != nil || d == nil {
				continue
			}
			b, berr := d.Bytes()
			if berr != nil {
				continue
			}
			want := sha256.Sum256(b)
			hh, herr := d.Hash()
			a, aerr := d.Base32Address()
			want32 := bitEncode(want[:], 5, alpha32, 8, false) + ".b32.i2p"
			ok := herr == nil && hh == want && aerr == nil && a == want32
			detail := fmt.Sprintf("padding of %d bytes (type's padding: %d): hash ok=%v address ok=%v", len(pad), len(src.Padding), hh == want, a == want32)
			if d2, rem, perr := destination.ReadDestination(b); perr == nil && len(rem) == 0 && d.Equals(&d2) {
				h2, _ := d2.Hash()
				a2, _ := d2.Base32Address()
				if h2 != hh || a2 != a {
					ok = false
					detail += "; the re-parsed copy is Equals() but has another hash/address"
				}
			}
			c.Check("hash_and_addresses_of_wire_bytes", ok, "NewDestination(parts).Hash/Base32Address", [][]byte{b, i64(int64(len(pad)))}, "", detail)
		}
	}
	for i := 0; i < c.N(250, 8000); i++ {
		id := genDestIdent(r)
		if r.Intn(3) == 0 {
			id = genRouterIdent(r)
		}
		if r.Intn(3) == 0 {
			id.CertExtra = r.Bytes(1 + r.Intn(6))
		}
		one(id, r.Bytes(r.Intn(5)))
	}
}

// failingReader delivers b[:failAt] and then fails
type failingReader struct {
	b      []byte
	failAt int
	off    int
}

func (f *failingReader) Read(p []byte) (int, error) {
	if f.off >= f.failAt {
		return 0, fmt.Errorf("read failed after %d bytes", f.off)
	}
	n := copy(p, f.b[f.off:f.failAt])
	f.off += n
	return n, nil
}
