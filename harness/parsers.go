// parsers.go — the byte-consuming entry points of the library in one table, each with
// the projected observables the model also produces (same order as Model/Run.v).
package main

import (
	"strings"

	"github.com/go-i2p/common/certificate"
	"github.com/go-i2p/common/data"
	"github.com/go-i2p/common/destination"
	"github.com/go-i2p/common/encrypted_leaseset"
	"github.com/go-i2p/common/key_certificate"
	"github.com/go-i2p/common/keys_and_cert"
	"github.com/go-i2p/common/lease"
	"github.com/go-i2p/common/lease_set"
	"github.com/go-i2p/common/lease_set2"
	"github.com/go-i2p/common/meta_leaseset"
	"github.com/go-i2p/common/offline_signature"
	"github.com/go-i2p/common/router_address"
	"github.com/go-i2p/common/router_identity"
	"github.com/go-i2p/common/router_info"
	"github.com/go-i2p/common/session_key"
	"github.com/go-i2p/common/session_tag"
	"github.com/go-i2p/common/signature"
)

// Parsed is what a parser run yields for the oracles.
type Parsed struct {
	OK    bool
	Bytes []byte // serialisation of the returned value
	Rem   []byte
	Val   interface{}
	Obs   Obs
	SerErr string // the reader accepted (nil error) but the value it returned cannot be serialised
}

type Parser struct {
	Name   string
	Entry  int
	HasRem bool
	Extra  func(r *Rng) [][]byte      // extra arguments (type codes), nil if none
	Run    func(b []byte, extra [][]byte) Parsed
	Gen    func(r *Rng) []byte         // a well-formed encoding (mostly valid)
	InexactGen bool // Gen does not produce exactly one structure for the Extra argument
	MinSizeGuard int                   // whole-input minimum-size guard (0 = none); see DESIGN D6
}

func cp(b []byte) []byte { return append([]byte(nil), b...) }

func kacParsed(k *keys_and_cert.KeysAndCert, rem []byte, err error) Parsed {
	if err != nil || k == nil {
		return Parsed{Obs: ERR()}
	}
	b, berr := k.Bytes()
	if berr != nil {
		return Parsed{Obs: ERR(), SerErr: berr.Error()}
	}
	var pub, spk []byte
	if k.ReceivingPublic != nil {
		pub = k.ReceivingPublic.Bytes()
	}
	if k.SigningPublic != nil {
		spk = k.SigningPublic.Bytes()
	}
	return Parsed{OK: true, Bytes: b, Rem: rem, Val: k, Obs: OK(b, rem, pub, k.Padding, spk)}
}

func be16(b []byte) int { return int(b[0])<<8 | int(b[1]) }
func argInt(b []byte) int {
	var v int64
	for _, x := range b {
		v = v<<8 | int64(x)
	}
	return int(v)
}

func mappingFatal(errs []error) bool {
	for _, e := range errs {
		if !strings.Contains(e.Error(), "data exists beyond length of mapping") {
			return true
		}
	}
	return false
}

var sigTypesAll = []int{0, 1, 2, 3, 4, 5, 6, 7, 8, 9, 10, 11, 12, 20, 21, 255, 256, 65279, 65280, 65534, 65535, -1, 65536, 1 << 20}

func genSigTypeArg(r *Rng) [][]byte {
	if r.Intn(4) == 0 {
		return [][]byte{i64(int64(sigTypesAll[r.Intn(len(sigTypesAll))]))}
	}
	return [][]byte{i64(int64([]int{0, 1, 2, 3, 4, 5, 6, 7, 8, 11}[r.Intn(10)]))}
}

var parsers []Parser

func init() {
	parsers = []Parser{
		{Name: "ReadCertificate", Entry: E_ReadCertificate, HasRem: true,
			Run: func(b []byte, _ [][]byte) Parsed {
				c, rem, err := certificate.ReadCertificate(b)
				if err != nil || c == nil {
					return Parsed{Obs: ERR()}
				}
				return Parsed{OK: true, Bytes: c.Bytes(), Rem: rem, Val: c, Obs: OK(c.Bytes(), rem, c.RawBytes(), c.ExcessBytes())}
			},
			Gen: func(r *Rng) []byte {
				t := []int{0, 1, 2, 3, 4, 5, 6, 255}[r.Intn(8)]
				n := []int{0, 0, 4, 4, 40, 72, 1, 300}[r.Intn(8)]
				return cat([]byte{byte(t)}, u16(n), r.Bytes(n))
			}},
		{Name: "NewKeyCertificate", Entry: E_NewKeyCertificate, HasRem: true,
			Run: func(b []byte, _ [][]byte) Parsed {
				k, rem, err := key_certificate.NewKeyCertificate(b)
				if err != nil || k == nil {
					return Parsed{Obs: ERR()}
				}
				return Parsed{OK: true, Bytes: k.Bytes(), Rem: rem, Val: k, Obs: OK(k.Bytes(), rem, k.SpkType.Bytes(), k.CpkType.Bytes())}
			},
			Gen: func(r *Rng) []byte {
				id := genAnyIdent(r)
				id.NullCert = false
				return id.Cert()
			}},
		{Name: "ReadKeysAndCert", Entry: E_ReadKeysAndCert, HasRem: true,
			Run: func(b []byte, _ [][]byte) Parsed { return kacParsed(keys_and_cert.ReadKeysAndCert(b)) },
			Gen: func(r *Rng) []byte { return genAnyIdent(r).Encode() }},
		{Name: "ReadKeysAndCertElgAndEd25519", Entry: E_ReadKACElgEd25519, HasRem: true,
			Run: func(b []byte, _ [][]byte) Parsed { return kacParsed(keys_and_cert.ReadKeysAndCertElgAndEd25519(b)) },
			Gen: func(r *Rng) []byte { return genIdentTypes(r, 7, 0, false).Encode() }},
		{Name: "ReadKeysAndCertX25519AndEd25519", Entry: E_ReadKACX25519Ed25519, HasRem: true,
			Run: func(b []byte, _ [][]byte) Parsed { return kacParsed(keys_and_cert.ReadKeysAndCertX25519AndEd25519(b)) },
			Gen: func(r *Rng) []byte { return genIdentTypes(r, 7, 4, false).Encode() }},
		{Name: "ReadDestination", Entry: E_ReadDestination, HasRem: true,
			Run: func(b []byte, _ [][]byte) Parsed {
				d, rem, err := destination.ReadDestination(b)
				p := kacParsed(d.KeysAndCert, rem, err)
				if p.OK {
					p.Val = &d
				}
				return p
			},
			Gen: func(r *Rng) []byte {
				if r.Intn(5) == 0 {
					return genAnyIdent(r).Encode()
				}
				return genDestIdent(r).Encode()
			}},
		{Name: "ReadRouterIdentity", Entry: E_ReadRouterIdentity, HasRem: true,
			Run: func(b []byte, _ [][]byte) Parsed {
				ri, rem, err := router_identity.ReadRouterIdentity(b)
				if err != nil || ri == nil {
					return Parsed{Obs: ERR()}
				}
				p := kacParsed(ri.KeysAndCert, rem, err)
				if p.OK {
					p.Val = ri
				}
				return p
			},
			Gen: func(r *Rng) []byte {
				if r.Intn(5) == 0 {
					return genAnyIdent(r).Encode()
				}
				return genRouterIdent(r).Encode()
			}},
		{Name: "ReadSignature", Entry: E_ReadSignature, HasRem: true, Extra: genSigTypeArg, InexactGen: true,
			Run: func(b []byte, ex [][]byte) Parsed {
				t := int(int64(beU64(ex[0])))
				s, rem, err := signature.ReadSignature(b, t)
				if err != nil {
					return Parsed{Obs: ERR()}
				}
				return Parsed{OK: true, Bytes: s.Bytes(), Rem: rem, Val: &s, Obs: OK(s.Bytes(), rem)}
			},
			Gen: func(r *Rng) []byte { return r.Bytes([]int{40, 64, 96, 132, 256, 384, 512}[r.Intn(7)]) }},
		{Name: "ReadOfflineSignature", Entry: E_ReadOfflineSignature, HasRem: true, InexactGen: true,
			Extra: func(r *Rng) [][]byte { return [][]byte{u64b(uint64([]int{7, 11, 0, 1, 2, 8, 9, 99}[r.Intn(8)]))} },
			Run: func(b []byte, ex [][]byte) Parsed {
				dt := uint16(beU64(ex[0]))
				o, rem, err := offline_signature.ReadOfflineSignature(b, dt)
				if err != nil {
					return Parsed{Obs: ERR()}
				}
				return Parsed{OK: true, Bytes: o.Bytes(), Rem: rem, Val: &o, Obs: OK(o.Bytes(), rem, o.SignedData())}
			},
			Gen: func(r *Rng) []byte { return genOffline(r, []int{7, 11, 0, 1, 2, 8}[r.Intn(6)]).Encode() }},
		{Name: "ReadLease", Entry: E_ReadLease, HasRem: true,
			Run: func(b []byte, _ [][]byte) Parsed {
				l, rem, err := lease.ReadLease(b)
				if err != nil {
					return Parsed{Obs: ERR()}
				}
				return Parsed{OK: true, Bytes: l.Bytes(), Rem: rem, Val: &l, Obs: OK(l.Bytes(), rem)}
			},
			Gen: genLease},
		{Name: "ReadLease2", Entry: E_ReadLease2, HasRem: true,
			Run: func(b []byte, _ [][]byte) Parsed {
				l, rem, err := lease.ReadLease2(b)
				if err != nil {
					return Parsed{Obs: ERR()}
				}
				return Parsed{OK: true, Bytes: l.Bytes(), Rem: rem, Val: &l, Obs: OK(l.Bytes(), rem)}
			},
			Gen: genLease2},
		{Name: "ReadRouterAddress", Entry: E_ReadRouterAddress, HasRem: true,
			Run: func(b []byte, _ [][]byte) Parsed {
				a, rem, err := router_address.ReadRouterAddress(b)
				if err != nil {
					return Parsed{Obs: ERR()}
				}
				return Parsed{OK: true, Bytes: a.Bytes(), Rem: rem, Val: &a, Obs: OK(a.Bytes(), rem)}
			},
			Gen: func(r *Rng) []byte { return genRouterAddr(r).Encode() }},
		{Name: "ReadRouterInfo", Entry: E_ReadRouterInfo, HasRem: true,
			Run: func(b []byte, _ [][]byte) Parsed {
				ri, rem, err := router_info.ReadRouterInfo(b)
				if err != nil {
					return Parsed{Obs: ERR()}
				}
				bs, berr := ri.Bytes()
				if berr != nil {
					return Parsed{Obs: ERR(), SerErr: berr.Error()}
				}
				return Parsed{OK: true, Bytes: bs, Rem: rem, Val: &ri, Obs: OK(bs, rem)}
			},
			Gen: func(r *Rng) []byte { return genRouterInfo(r).Encode() }},
		{Name: "ReadLeaseSet", Entry: E_ReadLeaseSet, HasRem: false,
			Run: func(b []byte, _ [][]byte) Parsed {
				ls, err := lease_set.ReadLeaseSet(b)
				if err != nil {
					return Parsed{Obs: ERR()}
				}
				bs, berr := ls.Bytes()
				if berr != nil {
					return Parsed{Obs: ERR(), SerErr: berr.Error()}
				}
				return Parsed{OK: true, Bytes: bs, Val: &ls, Obs: OK(bs)}
			},
			Gen: func(r *Rng) []byte { return genLeaseSet(r).Encode() }},
		{Name: "ReadLeaseSet2", Entry: E_ReadLeaseSet2, HasRem: true, MinSizeGuard: lease_set2.LEASESET2_MIN_SIZE,
			Run: func(b []byte, _ [][]byte) Parsed {
				ls, rem, err := lease_set2.ReadLeaseSet2(b)
				if err != nil {
					return Parsed{Obs: ERR()}
				}
				bs, berr := ls.Bytes()
				if berr != nil {
					return Parsed{Obs: ERR(), SerErr: berr.Error()}
				}
				return Parsed{OK: true, Bytes: bs, Rem: rem, Val: &ls, Obs: OK(bs, rem)}
			},
			Gen: func(r *Rng) []byte { return genLeaseSet2(r).Encode() }},
		{Name: "ReadMetaLeaseSet", Entry: E_ReadMetaLeaseSet, HasRem: true, MinSizeGuard: meta_leaseset.META_LEASESET_MIN_SIZE,
			Run: func(b []byte, _ [][]byte) Parsed {
				m, rem, err := meta_leaseset.ReadMetaLeaseSet(b)
				if err != nil {
					return Parsed{Obs: ERR()}
				}
				bs, berr := m.Bytes()
				if berr != nil {
					return Parsed{Obs: ERR(), SerErr: berr.Error()}
				}
				return Parsed{OK: true, Bytes: bs, Rem: rem, Val: &m, Obs: OK(bs, rem)}
			},
			Gen: func(r *Rng) []byte { return genMeta(r).Encode() }},
		{Name: "ReadEncryptedLeaseSet", Entry: E_ReadEncryptedLeaseSet, HasRem: true, MinSizeGuard: encrypted_leaseset.ENCRYPTED_LEASESET_MIN_SIZE,
			Run: func(b []byte, _ [][]byte) Parsed {
				e, rem, err := encrypted_leaseset.ReadEncryptedLeaseSet(b)
				if err != nil {
					return Parsed{Obs: ERR()}
				}
				bs, berr := e.Bytes()
				if berr != nil {
					return Parsed{Obs: ERR(), SerErr: berr.Error()}
				}
				return Parsed{OK: true, Bytes: bs, Rem: rem, Val: &e, Obs: OK(bs, rem)}
			},
			Gen: func(r *Rng) []byte { return genEncLS(r).Encode() }},
		{Name: "ReadMapping", Entry: E_ReadMapping, HasRem: true,
			Run: func(b []byte, _ [][]byte) Parsed {
				m, rem, errs := data.ReadMapping(b)
				outs := [][]byte{bool1(mappingFatal(errs)), m.Data(), rem}
				for _, p := range m.Values() {
					outs = append(outs, []byte(p[0]), []byte(p[1]))
				}
				return Parsed{OK: !mappingFatal(errs), Bytes: m.Data(), Rem: rem, Val: &m, Obs: OK(outs...)}
			},
			Gen: func(r *Rng) []byte {
				if r.Intn(4) == 0 {
					return encodeMapping(genKVs(r, 12))
				}
				return encodeMapping(genSmallKVs(r))
			}},
		{Name: "ReadDate", Entry: E_ReadDate, HasRem: true,
			Run: func(b []byte, _ [][]byte) Parsed {
				d, rem, err := data.ReadDate(b)
				if err != nil {
					return Parsed{Obs: ERR()}
				}
				return Parsed{OK: true, Bytes: cp(d[:]), Rem: rem, Val: &d, Obs: OK(d[:], rem)}
			},
			Gen: func(r *Rng) []byte { return r.Bytes(8) }},
		{Name: "ReadHash", Entry: E_ReadHash, HasRem: true,
			Run: func(b []byte, _ [][]byte) Parsed {
				h, rem, err := data.ReadHash(b)
				if err != nil {
					return Parsed{Obs: ERR()}
				}
				return Parsed{OK: true, Bytes: cp(h[:]), Rem: rem, Val: &h, Obs: OK(h[:], rem)}
			},
			Gen: func(r *Rng) []byte { return r.Bytes(32) }},
		{Name: "ReadI2PString", Entry: E_ReadI2PString, HasRem: true,
			Run: func(b []byte, _ [][]byte) Parsed {
				s, rem, err := data.ReadI2PString(b)
				if err != nil {
					return Parsed{Obs: ERR()}
				}
				return Parsed{OK: true, Bytes: cp(s), Rem: rem, Val: s, Obs: OK(s, rem)}
			},
			Gen: func(r *Rng) []byte { n := r.Intn(256); return cat([]byte{byte(n)}, r.Bytes(n)) }},
		{Name: "ReadSessionKey", Entry: E_ReadSessionKey, HasRem: true,
			Run: func(b []byte, _ [][]byte) Parsed {
				k, rem, err := session_key.ReadSessionKey(b)
				if err != nil {
					return Parsed{Obs: ERR()}
				}
				return Parsed{OK: true, Bytes: cp(k[:]), Rem: rem, Val: &k, Obs: OK(k[:], rem)}
			},
			Gen: func(r *Rng) []byte { return r.Bytes(32) }},
		{Name: "ReadSessionTag", Entry: E_ReadSessionTag, HasRem: true,
			Run: func(b []byte, _ [][]byte) Parsed {
				k, rem, err := session_tag.ReadSessionTag(b)
				if err != nil {
					return Parsed{Obs: ERR()}
				}
				kb := k.Bytes()
				return Parsed{OK: true, Bytes: cp(kb), Rem: rem, Val: &k, Obs: OK(kb, rem)}
			},
			Gen: func(r *Rng) []byte { return r.Bytes(32) }},
		{Name: "ReadECIESSessionTag", Entry: E_ReadECIESSessionTag, HasRem: true,
			Run: func(b []byte, _ [][]byte) Parsed {
				k, rem, err := session_tag.ReadECIESSessionTag(b)
				if err != nil {
					return Parsed{Obs: ERR()}
				}
				kb := k.Bytes()
				return Parsed{OK: true, Bytes: cp(kb), Rem: rem, Val: &k, Obs: OK(kb, rem)}
			},
			Gen: func(r *Rng) []byte { return r.Bytes(8) }},
	}
}

func beU64(b []byte) uint64 {
	var v uint64
	for _, x := range b {
		v = v<<8 | uint64(x)
	}
	return v
}

// runParser records the correspondence case and returns what the implementation did.
func runParser(c *Ctx, p *Parser, input []byte, extra [][]byte) Parsed {
	var res Parsed
	args := append([][]byte{input}, extra...)
	o := c.Case(p.Entry, args, func() Obs {
		res = p.Run(input, extra)
		return res.Obs
	})
	if o.Status == "panic" {
		res = Parsed{Obs: o}
	}
	// the serialisation handed out belongs to the caller from now on: later calls into the
	// library (on this or any other value) must leave it as it is
	if res.OK {
		c.Hold(p.Name+" -> Bytes()", args, res.Bytes)
	}
	return res
}

// mutations of a well-formed encoding: boundary values in length/count/type fields
func mutateFields(r *Rng, w []byte) []byte {
	m := cp(w)
	if len(m) == 0 {
		return m
	}
	switch r.Intn(6) {
	case 0: // one byte to a boundary value
		m[r.Intn(len(m))] = []byte{0, 1, 16, 17, 0x7f, 0x80, 0xff}[r.Intn(7)]
	case 1: // one bit
		i := r.Intn(len(m))
		m[i] ^= 1 << uint(r.Intn(8))
	case 2: // bytes near the certificate / header region
		if len(m) > 404 {
			i := 384 + r.Intn(20)
			m[i] = byte(r.U64())
		} else {
			m[r.Intn(len(m))] = byte(r.U64())
		}
	case 3: // the tail (counts, signatures)
		i := len(m) - 1 - r.Intn(min(len(m), 80))
		if i < 0 {
			i = 0
		}
		m[i] = []byte{0, 1, 16, 17, 0xff}[r.Intn(5)]
	case 4: // increment / decrement a byte (off-by-one in a length field)
		i := r.Intn(len(m))
		if r.Bool() {
			m[i]++
		} else {
			m[i]--
		}
	default: // two edits
		m[r.Intn(len(m))] = byte(r.U64())
		m[r.Intn(len(m))] = byte(r.U64())
	}
	return m
}
