// GENERATED from /verif/entries.txt
package main

const (
	E_ReadInteger = 1
	E_IntegerInt = 2
	E_NewIntegerFromInt = 3
	E_EncodeIntN = 4
	E_DecodeIntN = 5
	E_IntSafe = 6
	E_UintSafe = 7
	E_NewIntegerFromBytes = 8
	E_EncU16 = 10
	E_EncU32 = 11
	E_EncU64 = 12
	E_EncI16 = 13
	E_EncI32 = 14
	E_EncI64 = 15
	E_DecU16 = 16
	E_DecU32 = 17
	E_DecU64 = 18
	E_DecI16 = 19
	E_DecI32 = 20
	E_DecI64 = 21
	E_ReadDate = 25
	E_DateInt = 26
	E_DateFromTime = 27
	E_NewDateFromUnix = 28
	E_NewDateFromMillis = 29
	E_ReadHash = 30
	E_ReadI2PString = 35
	E_StrLength = 36
	E_StrData = 37
	E_StrDataSafe = 38
	E_ToI2PString = 39
	E_NewI2PStringFromBytes = 40
	E_StrIsValid = 41
	E_ReadCertificate = 50
	E_NewCertificateWithType = 51
	E_NewKeyCertificate = 52
	E_NewKeyCertificateWithTypes = 53
	E_ReadKeysAndCert = 55
	E_ReadKACElgEd25519 = 56
	E_ReadKACX25519Ed25519 = 57
	E_ReadDestination = 58
	E_ReadRouterIdentity = 59
	E_ReadSignature = 60
	E_NewSignatureFromBytes = 61
	E_ReadOfflineSignature = 62
	E_ReadLease = 63
	E_ReadLease2 = 64
	E_ReadMapping = 65
	E_GoMapToMapping = 66
	E_ReadRouterAddress = 67
	E_ReadRouterInfo = 68
	E_ReadLeaseSet = 69
	E_ReadLeaseSet2 = 70
	E_ReadMetaLeaseSet = 71
	E_ReadEncryptedLeaseSet = 72
	E_KCSizes = 80
	E_SigSize = 81
	E_OffSizes = 82
	E_LS2KeySizeKnown = 83
	E_DestAllowed = 84
	E_RIAllowed = 85
	E_ReadSessionKey = 90
	E_ReadSessionTag = 91
	E_ReadECIESSessionTag = 92
	E_LS2Expiration = 100
	E_MetaExpiration = 101
	E_EncExpiration = 102
	E_LeaseTime = 103
	E_Lease2Time = 104
	E_NewLease2 = 105
	E_NewLease = 106
	E_OfflineExpires = 107
	E_MetaEntryExpires = 108
	E_NewestOldest = 109
	E_VerifyRouterInfo = 120
	E_VerifyLeaseSet = 121
	E_VerifyLeaseSet2 = 122
	E_VerifyMetaLeaseSet = 123
	E_VerifyEncryptedLeaseSet = 124
	E_VerifyOfflineSignature = 125
	E_B32Encode = 130
	E_B32Decode = 131
	E_B32EncodeNoPad = 132
	E_B32DecodeNoPad = 133
	E_B32EncodeSafeLen = 134
	E_B32DecodeSafe = 135
	E_B32DecodeSafeNoPad = 136
	E_B64Encode = 137
	E_B64Decode = 138
	E_B64DecodeSafe = 139
	E_DestAddresses = 140
	E_RouterAddrAccessors = 141
	E_AliasBytesChange = 150
	E_NewOfflineSignature = 160
	E_NewKeysAndCertFromParts = 161
	E_ELSSplit = 170
	E_BlindingDate = 171
	E_LS2Validate = 180
	E_NewLS2Check = 181
	E_NewELSCheck = 182
	E_ConstructSPK = 183
	E_ConstructPK = 184
)

var entryNames = map[int]string{
	1: "ReadInteger",
	2: "IntegerInt",
	3: "NewIntegerFromInt",
	4: "EncodeIntN",
	5: "DecodeIntN",
	6: "IntSafe",
	7: "UintSafe",
	8: "NewIntegerFromBytes",
	10: "EncU16",
	11: "EncU32",
	12: "EncU64",
	13: "EncI16",
	14: "EncI32",
	15: "EncI64",
	16: "DecU16",
	17: "DecU32",
	18: "DecU64",
	19: "DecI16",
	20: "DecI32",
	21: "DecI64",
	25: "ReadDate",
	26: "DateInt",
	27: "DateFromTime",
	28: "NewDateFromUnix",
	29: "NewDateFromMillis",
	30: "ReadHash",
	35: "ReadI2PString",
	36: "StrLength",
	37: "StrData",
	38: "StrDataSafe",
	39: "ToI2PString",
	40: "NewI2PStringFromBytes",
	41: "StrIsValid",
	50: "ReadCertificate",
	51: "NewCertificateWithType",
	52: "NewKeyCertificate",
	53: "NewKeyCertificateWithTypes",
	55: "ReadKeysAndCert",
	56: "ReadKACElgEd25519",
	57: "ReadKACX25519Ed25519",
	58: "ReadDestination",
	59: "ReadRouterIdentity",
	60: "ReadSignature",
	61: "NewSignatureFromBytes",
	62: "ReadOfflineSignature",
	63: "ReadLease",
	64: "ReadLease2",
	65: "ReadMapping",
	66: "GoMapToMapping",
	67: "ReadRouterAddress",
	68: "ReadRouterInfo",
	69: "ReadLeaseSet",
	70: "ReadLeaseSet2",
	71: "ReadMetaLeaseSet",
	72: "ReadEncryptedLeaseSet",
	80: "KCSizes",
	81: "SigSize",
	82: "OffSizes",
	83: "LS2KeySizeKnown",
	84: "DestAllowed",
	85: "RIAllowed",
	90: "ReadSessionKey",
	91: "ReadSessionTag",
	92: "ReadECIESSessionTag",
	100: "LS2Expiration",
	101: "MetaExpiration",
	102: "EncExpiration",
	103: "LeaseTime",
	104: "Lease2Time",
	105: "NewLease2",
	106: "NewLease",
	107: "OfflineExpires",
	108: "MetaEntryExpires",
	109: "NewestOldest",
	120: "VerifyRouterInfo",
	121: "VerifyLeaseSet",
	122: "VerifyLeaseSet2",
	123: "VerifyMetaLeaseSet",
	124: "VerifyEncryptedLeaseSet",
	125: "VerifyOfflineSignature",
	130: "B32Encode",
	131: "B32Decode",
	132: "B32EncodeNoPad",
	133: "B32DecodeNoPad",
	134: "B32EncodeSafeLen",
	135: "B32DecodeSafe",
	136: "B32DecodeSafeNoPad",
	137: "B64Encode",
	138: "B64Decode",
	139: "B64DecodeSafe",
	140: "DestAddresses",
	141: "RouterAddrAccessors",
	150: "AliasBytesChange",
	160: "NewOfflineSignature",
	161: "NewKeysAndCertFromParts",
	170: "ELSSplit",
	171: "BlindingDate",
	180: "LS2Validate",
	181: "NewLS2Check",
	182: "NewELSCheck",
	183: "ConstructSPK",
	184: "ConstructPK",
}
