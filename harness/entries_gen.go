// GENERATED from /verif/entries.txt
package main

const (
	E_ReadInteger = 1
	E_IntegerInt = 2
	E_NewIntegerFromInt = 3
	E_EncodeIntN = 4
	E_DecodeIntN = 5
	E_IntSafe = 6
	E_UintSafe = 7
	E_NewIntegerFromBytes = 8
	E_EncU16 = 10
	E_EncU32 = 11
	E_EncU64 = 12
	E_EncI16 = 13
	E_EncI32 = 14
	E_EncI64 = 15
	E_DecU16 = 16
	E_DecU32 = 17
	E_DecU64 = 18
	E_DecI16 = 19
	E_DecI32 = 20
	E_DecI64 = 21
	E_ReadDate = 25
	E_DateInt = 26
	E_DateFromTime = 27
	E_NewDateFromUnix = 28
	E_NewDateFromMillis = 29
	E_ReadHash = 30
	E_ReadI2PString = 35
	E_StrLength = 36
	E_StrData = 37
	E_StrDataSafe = 38
	E_ToI2PString = 39
	E_NewI2PStringFromBytes = 40
	E_StrIsValid = 41
)

var entryNames = map[int]string{
	1: "ReadInteger",
	2: "IntegerInt",
	3: "NewIntegerFromInt",
	4: "EncodeIntN",
	5: "DecodeIntN",
	6: "IntSafe",
	7: "UintSafe",
	8: "NewIntegerFromBytes",
	10: "EncU16",
	11: "EncU32",
	12: "EncU64",
	13: "EncI16",
	14: "EncI32",
	15: "EncI64",
	16: "DecU16",
	17: "DecU32",
	18: "DecU64",
	19: "DecI16",
	20: "DecI32",
	21: "DecI64",
	25: "ReadDate",
	26: "DateInt",
	27: "DateFromTime",
	28: "NewDateFromUnix",
	29: "NewDateFromMillis",
	30: "ReadHash",
	35: "ReadI2PString",
	36: "StrLength",
	37: "StrData",
	38: "StrDataSafe",
	39: "ToI2PString",
	40: "NewI2PStringFromBytes",
	41: "StrIsValid",
}
