package main

import (
	"fmt"
	"reflect"
	"sort"

	"github.com/go-i2p/common/certificate"
	"github.com/go-i2p/common/data"
	"github.com/go-i2p/common/destination"
	"github.com/go-i2p/common/encrypted_leaseset"
	"github.com/go-i2p/common/key_certificate"
	"github.com/go-i2p/common/keys_and_cert"
	"github.com/go-i2p/common/lease"
	"github.com/go-i2p/common/lease_set"
	"github.com/go-i2p/common/lease_set2"
	"github.com/go-i2p/common/meta_leaseset"
	"github.com/go-i2p/common/offline_signature"
	"github.com/go-i2p/common/router_address"
	"github.com/go-i2p/common/router_identity"
	"github.com/go-i2p/common/router_info"
	"github.com/go-i2p/common/signature"
)

func init() { props["C20"] = runC20 }

// touch calls every exported argument-free method of v (pointer and value method sets),
// records a panic, and reports whether any verification method claimed success.
func touch(v interface{}) (panicked string, verified string, calls int) {
	if v == nil {
		return
	}
	rv := reflect.ValueOf(v)
	seen := map[string]bool{}
	try := func(rv reflect.Value) {
		t := rv.Type()
		for i := 0; i < t.NumMethod(); i++ {
			m := t.Method(i)
			if m.Type.NumIn() != 1 || seen[m.Name] {
				continue
			}
			seen[m.Name] = true
			calls++
			func() {
				defer func() {
					if r := recover(); r != nil && panicked == "" {
						panicked = fmt.Sprintf("%s.%s: %v", t.String(), m.Name, r)
					}
				}()
				out := rv.Method(i).Call(nil)
				if m.Name == "Verify" || m.Name == "VerifySignature" {
					ok := true
					for _, o := range out {
						switch o.Kind() {
						case reflect.Bool:
							ok = ok && o.Bool()
						case reflect.Interface:
							ok = ok && o.IsNil() // error == nil
						}
					}
					if ok && verified == "" {
						verified = t.String() + "." + m.Name
					}
				}
			}()
		}
	}
	try(rv)
	if rv.Kind() == reflect.Ptr && !rv.IsNil() {
		try(rv.Elem())
	}
	return
}

// every parser that returns a value together with an error: the value as returned
var partialParsers = []struct {
	name string
	gen  func(r *Rng) []byte
	run  func(b []byte) (interface{}, bool) // value, error?
}{
	{"ReadCertificate", func(r *Rng) []byte { return cat([]byte{5, 0, 4}, r.Bytes(4)) }, func(b []byte) (interface{}, bool) { v, _, e := certificate.ReadCertificate(b); return v, e != nil }},
	{"NewKeyCertificate", func(r *Rng) []byte { return cat([]byte{5, 0, 4, 0, 7, 0, 4}) }, func(b []byte) (interface{}, bool) {
		v, _, e := key_certificate.NewKeyCertificate(b)
		return v, e != nil
	}},
	{"ReadKeysAndCert", func(r *Rng) []byte { return genAnyIdent(r).Encode() }, func(b []byte) (interface{}, bool) { v, _, e := keys_and_cert.ReadKeysAndCert(b); return v, e != nil }},
	{"ReadKeysAndCertElgAndEd25519", func(r *Rng) []byte { return genIdentTypes(r, 7, 0, false).Encode() }, func(b []byte) (interface{}, bool) {
		v, _, e := keys_and_cert.ReadKeysAndCertElgAndEd25519(b)
		return v, e != nil
	}},
	{"ReadKeysAndCertX25519AndEd25519", func(r *Rng) []byte { return genIdentTypes(r, 7, 4, false).Encode() }, func(b []byte) (interface{}, bool) {
		v, _, e := keys_and_cert.ReadKeysAndCertX25519AndEd25519(b)
		return v, e != nil
	}},
	{"ReadDestination", func(r *Rng) []byte { return genAnyIdent(r).Encode() }, func(b []byte) (interface{}, bool) { v, _, e := destination.ReadDestination(b); return &v, e != nil }},
	{"NewDestinationFromBytes", func(r *Rng) []byte { return genAnyIdent(r).Encode() }, func(b []byte) (interface{}, bool) {
		v, _, e := destination.NewDestinationFromBytes(b)
		return v, e != nil
	}},
	{"ReadRouterIdentity", func(r *Rng) []byte { return genAnyIdent(r).Encode() }, func(b []byte) (interface{}, bool) {
		v, _, e := router_identity.ReadRouterIdentity(b)
		return v, e != nil
	}},
	{"ReadSignature", func(r *Rng) []byte { return r.Bytes(64) }, func(b []byte) (interface{}, bool) { v, _, e := signature.ReadSignature(b, 7); return &v, e != nil }},
	{"NewSignature", func(r *Rng) []byte { return r.Bytes(64) }, func(b []byte) (interface{}, bool) { v, _, e := signature.NewSignature(b, 7); return v, e != nil }},
	{"ReadOfflineSignature", func(r *Rng) []byte { return genOffline(r, 7).Encode() }, func(b []byte) (interface{}, bool) {
		v, _, e := offline_signature.ReadOfflineSignature(b, 7)
		return &v, e != nil
	}},
	{"ReadLease", genLease, func(b []byte) (interface{}, bool) { v, _, e := lease.ReadLease(b); return &v, e != nil }},
	{"ReadLease2", genLease2, func(b []byte) (interface{}, bool) { v, _, e := lease.ReadLease2(b); return &v, e != nil }},
	{"ReadMapping", func(r *Rng) []byte { return encodeMapping(genKVs(r, 5)) }, func(b []byte) (interface{}, bool) { v, _, e := data.ReadMapping(b); return &v, len(e) > 0 }},
	{"NewMapping", func(r *Rng) []byte { return encodeMapping(genKVs(r, 5)) }, func(b []byte) (interface{}, bool) { v, _, e := data.NewMapping(b); return v, len(e) > 0 }},
	{"ReadRouterAddress", func(r *Rng) []byte { return genRouterAddr(r).Encode() }, func(b []byte) (interface{}, bool) {
		v, _, e := router_address.ReadRouterAddress(b)
		return &v, e != nil
	}},
	{"ReadRouterInfo", func(r *Rng) []byte { return genRouterInfo(r).Encode() }, func(b []byte) (interface{}, bool) { v, _, e := router_info.ReadRouterInfo(b); return &v, e != nil }},
	{"ReadLeaseSet", func(r *Rng) []byte { return genLeaseSet(r).Encode() }, func(b []byte) (interface{}, bool) { v, e := lease_set.ReadLeaseSet(b); return &v, e != nil }},
	{"ReadLeaseSet2", func(r *Rng) []byte { return genLeaseSet2(r).Encode() }, func(b []byte) (interface{}, bool) { v, _, e := lease_set2.ReadLeaseSet2(b); return &v, e != nil }},
	{"ReadMetaLeaseSet", func(r *Rng) []byte { return genMeta(r).Encode() }, func(b []byte) (interface{}, bool) { v, _, e := meta_leaseset.ReadMetaLeaseSet(b); return &v, e != nil }},
	{"ReadEncryptedLeaseSet", func(r *Rng) []byte { return genEncLS(r).Encode() }, func(b []byte) (interface{}, bool) {
		v, _, e := encrypted_leaseset.ReadEncryptedLeaseSet(b)
		return &v, e != nil
	}},
	{"ReadDate", func(r *Rng) []byte { return r.Bytes(8) }, func(b []byte) (interface{}, bool) { v, _, e := data.ReadDate(b); return &v, e != nil }},
	{"ReadI2PString", func(r *Rng) []byte { return cat([]byte{9}, r.Bytes(9)) }, func(b []byte) (interface{}, bool) { v, _, e := data.ReadI2PString(b); return &v, e != nil }},
}

func runC20(c *Ctx) {
	r := c.R
	// (1) zero value of every exported named type with methods: exhaustive by reflection over
	// the list regenerated from the source
	names := make([]string, 0, len(apiZeroValues))
	for n := range apiZeroValues {
		names = append(names, n)
	}
	sort.Strings(names)
	for _, n := range names {
		for _, mode := range []string{"zero", "nil-pointer"} {
			v := apiZeroValues[n]()
			if mode == "nil-pointer" {
				// a typed nil pointer: only meaningful for pointer-receiver methods, which the
				// library guards in most places; the property speaks of zero VALUES, so this is
				// recorded as information only
				continue
			}
			p, ver, calls := touch(v)
			c.Check("zero_value_methods_return_normally", p == "", "zero value of "+n, nil, "", p)
			c.Check("zero_value_never_verifies", ver == "", "zero value of "+n, nil, "", ver+" reported success on a zero value")
			c.Dist["zero:"+n] += calls
		}
	}
	// (2) the value returned together with an error, at every truncation point (and for
	// field mutations) of well-formed encodings
	for _, pp := range partialParsers {
		pp := pp
		for k := 0; k < c.N(10, 40); k++ {
			forceCurrentOffline = k < 3 // the first values: current on the clock, with offline keys
			w := pp.gen(r)
			forceCurrentOffline = false
			cuts := []int{}
			if true { // every truncation point, in both tiers
				for i := 0; i <= len(w); i++ {
					cuts = append(cuts, i)
				}
			} else {
				for i := 0; i < 70; i++ {
					cuts = append(cuts, r.Intn(len(w)+1))
				}
				for i := 380; i < 420 && i <= len(w); i++ {
					cuts = append(cuts, i)
				}
				for i := len(w) - 70; i <= len(w); i++ {
					if i >= 0 {
						cuts = append(cuts, i)
					}
				}
			}
			inputs := [][]byte{}
			for _, cut := range cuts {
				inputs = append(inputs, w[:cut])
			}
			for i := 0; i < 12; i++ {
				inputs = append(inputs, mutateFields(r, w))
			}
			for _, in := range inputs {
				var v interface{}
				var isErr bool
				o := guard(func() Obs { v, isErr = pp.run(in); return OK() })
				c.Check("parser_returns_normally", o.Status == "ok", pp.name, [][]byte{in}, "", "parser panicked")
				if o.Status != "ok" || !isErr {
					continue
				}
				// a nil pointer returned with the error is Go's conventional "no value": there is
				// nothing to touch (see DESIGN.md, C20)
				if rv := reflect.ValueOf(v); v == nil || (rv.Kind() == reflect.Ptr && rv.IsNil()) {
					c.Dist["nilresult:"+pp.name]++
					continue
				}
				c.Dist["partial:"+pp.name]++
				p, ver, _ := touch(v)
				c.Check("failed_parse_result_methods_return_normally", p == "", pp.name, [][]byte{in}, "", p)
				c.Check("failed_parse_result_never_verifies", ver == "", pp.name, [][]byte{in}, "", ver+" reported success on a value returned with an error")
			}
		}
	}
	// correspondence: the model agrees on which inputs are rejected at every cut point
	for i := range parsers {
		p := &parsers[i]
		w := p.Gen(r)
		var extra [][]byte
		if p.Extra != nil {
			extra = p.Extra(r)
		}
		for cut := 0; cut <= len(w); cut += 1 + len(w)/60 {
			runParser(c, p, w[:cut], extra)
		}
	}
}
