package main

import (
	"bufio"
	"bytes"
	"crypto/ed25519"
	"encoding/hex"
	"fmt"
	"os"
	"path/filepath"
	"strings"

	"github.com/go-i2p/common/encrypted_leaseset"
	"github.com/go-i2p/common/lease_set"
	"github.com/go-i2p/common/lease_set2"
	"github.com/go-i2p/common/meta_leaseset"
	"github.com/go-i2p/common/offline_signature"
	"github.com/go-i2p/common/router_info"
)

func init() { props["C05"] = runC05 }

type edKey struct {
	pub  ed25519.PublicKey
	priv ed25519.PrivateKey
}

func genEd(r *Rng) edKey {
	priv := ed25519.NewKeyFromSeed(r.Bytes(32))
	return edKey{priv.Public().(ed25519.PublicKey), priv}
}

// identity with a real Ed25519-family signing key
func genSignedIdent(r *Rng, k edKey, sigType int, router bool) Ident {
	cr := []int{0, 4}[r.Intn(2)]
	id := genIdentTypes(r, sigType, cr, false)
	id.Spk = cp(k.pub)
	return id
}

// resolve: replace the model's query lists by verdicts, answering every query with an
// independent implementation of the signature scheme (Go's crypto/ed25519)
func answerQuery(alg int, key, msg, sig []byte) bool {
	switch alg {
	case 7:
		return len(key) == 32 && ed25519.Verify(ed25519.PublicKey(key), msg, sig)
	case 108:
		// Ed25519ph with a SHA-512 pre-hashed message: the library passes the raw signed data,
		// which VerifyWithOptions rejects unless it is 64 bytes long
		if len(key) != 32 {
			return false
		}
		return ed25519.VerifyWithOptions(ed25519.PublicKey(key), msg, sig, &ed25519.Options{Hash: 7 /* crypto.SHA512 */}) == nil
	case 0:
		// DSA-SHA1 with the I2P parameters, through crypto/dsa (harness/dsa.go)
		return dsaVerify(key, msg, sig)
	default:
		// ECDSA: the harness only ever supplies random signatures for these
		return false
	}
}

func unhex(s string) []byte {
	if s == "-" {
		return nil
	}
	b, _ := hex.DecodeString(s)
	return b
}

func resolveQueries(dir string) error {
	in, err := os.Open(filepath.Join(dir, "model.txt"))
	if err != nil {
		return err
	}
	defer in.Close()
	out, err := os.Create(filepath.Join(dir, "model_resolved.txt"))
	if err != nil {
		return err
	}
	defer out.Close()
	w := bufio.NewWriter(out)
	defer w.Flush()
	sc := bufio.NewScanner(in)
	sc.Buffer(make([]byte, 1<<20), 1<<26)
	for sc.Scan() {
		f := strings.Fields(sc.Text())
		if len(f) == 0 || f[0] != "ok" {
			w.WriteString("ok 00\n") // refused, rejected or panic: not verified
			continue
		}
		verdict := true
		qs := f[1:]
		if len(qs)%4 != 0 || len(qs) == 0 {
			verdict = false
		}
		for i := 0; i+3 < len(qs); i += 4 {
			a := unhex(qs[i])
			alg := 0
			if len(a) == 1 {
				alg = int(a[0])
			}
			if !answerQuery(alg, unhex(qs[i+1]), unhex(qs[i+2]), unhex(qs[i+3])) {
				verdict = false
			}
		}
		if verdict {
			w.WriteString("ok 01\n")
		} else {
			w.WriteString("ok 00\n")
		}
	}
	return sc.Err()
}

// what C05 demands of a structure the library reports as verified: the signature is valid
// under the contained identity's key over exactly the consumed bytes (with the store-type
// prefix), and a transient key was authorised by the identity's key
func authenticRaw(prefix []byte, consumed []byte, idkey []byte, sigLen int, off *offline_signature.OfflineSignature) (bool, string) {
	if sigLen > 0 && sigLen <= len(consumed) && len(idkey) == 128 && off == nil {
		if !dsaVerify(idkey, cat(prefix, consumed[:len(consumed)-sigLen]), consumed[len(consumed)-sigLen:]) {
			return false, "DSA signature does not verify under the identity key over the received bytes"
		}
		return true, ""
	}
	if sigLen <= 0 || sigLen > len(consumed) || len(idkey) != 32 {
		return false, "no signature / identity key is not an Ed25519 key"
	}
	msg := cat(prefix, consumed[:len(consumed)-sigLen])
	sig := consumed[len(consumed)-sigLen:]
	if off == nil {
		if !ed25519.Verify(ed25519.PublicKey(idkey), msg, sig) {
			return false, "signature does not verify under the identity key over the received bytes"
		}
		return true, ""
	}
	raw := off.Bytes()
	if !bytes.Contains(consumed, raw) {
		return false, "offline block is not part of the received bytes"
	}
	if !ed25519.Verify(ed25519.PublicKey(idkey), off.SignedData(), off.Signature()) {
		return false, "transient key is not authorised by the identity key"
	}
	tk := off.TransientPublicKey()
	if off.TransientSigType() != 7 && off.TransientSigType() != 11 && off.TransientSigType() != 8 {
		return false, "transient key type cannot have produced a valid signature here"
	}
	if len(tk) != 32 || !ed25519.Verify(ed25519.PublicKey(tk), msg, sig) {
		return false, "signature does not verify under the transient key over the received bytes"
	}
	return true, ""
}

type signedCase struct {
	entry  int
	name   string
	prefix []byte
	input  []byte
	extra  [][]byte
}

func c05Run(c *Ctx, sc signedCase, expectAuthentic int) {
	// expectAuthentic: 1 = the generator built an authentic structure (must verify),
	// 0 = forged (must not verify), -1 = unknown (mutation): soundness oracle only
	args := append([][]byte{sc.input}, sc.extra...)
	var verdict bool
	var why string
	var authentic bool
	c.Case(sc.entry, args, func() Obs {
		verdict, authentic, why = c05Impl(sc)
		return OK(bool1(verdict))
	})
	class := ""
	if verdict && !authentic && strings.HasPrefix(why, "slack:") {
		class = "mapping-slack"
	}
	c.Check("verified_implies_authentic", !verdict || authentic, sc.name, args, class, why)
	if expectAuthentic == 0 {
		c.Check("forgery_rejected", !verdict, sc.name, args, "", "a forged structure verified")
	}
	if expectAuthentic == 1 {
		c.Check("authentic_accepted", verdict, sc.name, args, "", "an authentic structure did not verify")
	}
}

// runs the library's parser + Verify and the independent authenticity check on the raw bytes
func c05Impl(sc signedCase) (verdict bool, authentic bool, why string) {
	in := sc.input
	edType := func(t int) bool { return t == 7 || t == 11 }
	switch sc.entry {
	case E_VerifyRouterInfo:
		ri, rem, err := router_info.ReadRouterInfo(in)
		if err != nil {
			return false, false, "rejected"
		}
		ok, verr := ri.VerifySignature()
		verdict = ok && verr == nil
		if !verdict {
			return false, false, "not verified"
		}
		consumed := in[:len(in)-len(rem)]
		sigLen := len(ri.Signature().Bytes())
		authentic, why = authenticRaw(nil, consumed, in[384-32:384], sigLen, nil)
		if !authentic {
			if b, e := ri.Bytes(); e == nil && slackOnly(consumed, b, 0) {
				why = "slack: " + why
			}
		}
	case E_VerifyLeaseSet:
		ls, err := lease_set.ReadLeaseSet(in)
		if err != nil {
			return false, false, "rejected"
		}
		verdict = ls.Verify() == nil
		if !verdict {
			return false, false, "not verified"
		}
		b, _ := ls.Bytes()
		consumed := in[:min(len(b), len(in))]
		d := ls.Destination()
		sig := ls.Signature()
		if d.KeyCertificate.SigningPublicKeyType() == 0 {
			authentic, why = authenticRaw(nil, consumed, in[384-128:384], len(sig.Bytes()), nil)
			break
		}
		if !edType(d.KeyCertificate.SigningPublicKeyType()) {
			return verdict, false, "identity key type not verifiable by the harness, yet verified with a random signature"
		}
		authentic, why = authenticRaw(nil, consumed, in[384-32:384], len(sig.Bytes()), nil)
	case E_VerifyLeaseSet2:
		ls, rem, err := lease_set2.ReadLeaseSet2(in)
		if err != nil {
			return false, false, "rejected"
		}
		verdict = ls.Verify() == nil
		if !verdict {
			return false, false, "not verified"
		}
		consumed := in[:len(in)-len(rem)]
		d := ls.Destination()
		if !edType(d.KeyCertificate.SigningPublicKeyType()) {
			return verdict, false, "identity key type not verifiable by the harness, yet verified"
		}
		var off *offline_signature.OfflineSignature
		if ls.HasOfflineKeys() {
			off = ls.OfflineSignature()
			if off == nil {
				return verdict, false, "offline flag set but no offline block"
			}
		}
		sig := ls.Signature()
		authentic, why = authenticRaw([]byte{3}, consumed, in[384-32:384], len(sig.Bytes()), off)
		if !authentic {
			if b, e := ls.Bytes(); e == nil && slackOnly(consumed, b, 0) {
				why = "slack: " + why
			}
		}
	case E_VerifyMetaLeaseSet:
		m, rem, err := meta_leaseset.ReadMetaLeaseSet(in)
		if err != nil {
			return false, false, "rejected"
		}
		verdict = m.Verify() == nil
		if !verdict {
			return false, false, "not verified"
		}
		consumed := in[:len(in)-len(rem)]
		d := m.Destination()
		if !edType(d.KeyCertificate.SigningPublicKeyType()) {
			return verdict, false, "identity key type not verifiable by the harness, yet verified"
		}
		var off *offline_signature.OfflineSignature
		if m.HasOfflineKeys() {
			off = m.OfflineSignature()
			if off == nil {
				return verdict, false, "offline flag set but no offline block"
			}
		}
		sig := m.Signature()
		authentic, why = authenticRaw([]byte{7}, consumed, in[384-32:384], len(sig.Bytes()), off)
		if !authentic {
			if b, e := m.Bytes(); e == nil && slackOnly(consumed, b, 0) {
				why = "slack: " + why
			}
		}
	case E_VerifyEncryptedLeaseSet:
		e, rem, err := encrypted_leaseset.ReadEncryptedLeaseSet(in)
		if err != nil {
			return false, false, "rejected"
		}
		verdict = e.Verify() == nil
		if !verdict {
			return false, false, "not verified"
		}
		consumed := in[:len(in)-len(rem)]
		if !edType(int(e.SigType())) {
			return verdict, false, "blinded key type not verifiable by the harness, yet verified"
		}
		var off *offline_signature.OfflineSignature
		if e.HasOfflineKeys() {
			off = e.OfflineSignature()
		}
		sig := e.Signature()
		authentic, why = authenticRaw([]byte{5}, consumed, in[2:34], len(sig.Bytes()), off)
	case E_VerifyOfflineSignature:
		dt := uint16(beU64(sc.extra[0]))
		o, rem, err := offline_signature.ReadOfflineSignature(in, dt)
		if err != nil {
			return false, false, "rejected"
		}
		ok, verr := o.VerifySignature(sc.extra[1])
		verdict = ok && verr == nil
		if !verdict {
			return false, false, "not verified"
		}
		consumed := in[:len(in)-len(rem)]
		sl := len(o.Signature())
		authentic = len(sc.extra[1]) == 32 && sl <= len(consumed) && ed25519.Verify(ed25519.PublicKey(sc.extra[1]), consumed[:len(consumed)-sl], consumed[len(consumed)-sl:])
		if !authentic {
			why = "offline signature does not verify under the given key over the received bytes"
		}
	}
	return
}

// builders of authentic structures (signed by the harness with crypto/ed25519, not by the library)
func signRouterInfo(r *Rng, k edKey) RouterInfoV {
	ri := genRouterInfo(r)
	ri.Ident = genSignedIdent(r, k, 7, true)
	ri.Sig = nil
	ri.Sig = ed25519.Sign(k.priv, ri.Encode())
	return ri
}
func signLeaseSet(r *Rng, k edKey, sigType int) LeaseSetV {
	ls := genLeaseSet(r)
	ls.Dest = genSignedIdent(r, k, sigType, false)
	ls.Spk = r.Bytes(32)
	ls.Sig = nil
	ls.Sig = ed25519.Sign(k.priv, ls.Encode())
	return ls
}
func signOffline(r *Rng, dest edKey, transient edKey) Offline {
	o := Offline{Expires: 1 + uint32(r.U64()>>33), SigType: 7, Key: cp(transient.pub)}
	o.Sig = ed25519.Sign(dest.priv, cat(u32(o.Expires), u16(o.SigType), o.Key))
	return o
}
func signLS2(r *Rng, k edKey, sigType int, offline bool) (LeaseSet2V, edKey) {
	l := genLeaseSet2(r)
	l.H.Dest = genSignedIdent(r, k, sigType, false)
	signer := k
	l.H.Offline = nil
	l.H.Flags &^= 1
	if offline {
		t := genEd(r)
		o := signOffline(r, k, t)
		l.H.Offline = &o
		l.H.Flags |= 1
		signer = t
	}
	l.Sig = nil
	l.Sig = ed25519.Sign(signer.priv, cat([]byte{3}, l.Encode()))
	return l, signer
}
func signMeta(r *Rng, k edKey, sigType int, offline bool) MetaLeaseSetV {
	m := genMeta(r)
	m.H.Dest = genSignedIdent(r, k, sigType, false)
	signer := k
	m.H.Offline = nil
	m.H.Flags &^= 1
	if offline {
		t := genEd(r)
		o := signOffline(r, k, t)
		m.H.Offline = &o
		m.H.Flags |= 1
		signer = t
	}
	m.Sig = nil
	m.Sig = ed25519.Sign(signer.priv, cat([]byte{7}, m.Encode()))
	return m
}
func signEnc(r *Rng, k edKey, sigType int, offline bool) EncLSV {
	e := genEncLS(r)
	e.SigType = sigType
	e.Key = cp(k.pub)
	e.Offline = nil
	e.Flags &^= 1
	signer := k
	if offline {
		t := genEd(r)
		o := signOffline(r, k, t)
		e.Offline = &o
		e.Flags |= 1
		signer = t
	}
	e.Sig = nil
	e.Sig = ed25519.Sign(signer.priv, cat([]byte{5}, e.Encode()))
	return e
}

func pad(w []byte, n int) []byte {
	if len(w) >= n {
		return w
	}
	return w // structures shorter than a whole-input guard are simply rejected (finding D6)
}

func runC05(c *Ctx) {
	r := c.R
	n := c.N(40, 1500)
	flip := func(w []byte, lo, hi int) []byte {
		m := cp(w)
		if hi > len(m) {
			hi = len(m)
		}
		if hi <= lo {
			return m
		}
		i := lo + r.Intn(hi-lo)
		m[i] ^= 1 << uint(r.Intn(8))
		return m
	}
	for i := 0; i < n; i++ {
		k, attacker := genEd(r), genEd(r)
		sigType := []int{7, 7, 11}[r.Intn(3)]
		// ---- RouterInfo (identity signing type must be Ed25519)
		ri := signRouterInfo(r, k)
		w := ri.Encode()
		sc := signedCase{E_VerifyRouterInfo, "RouterInfo.VerifySignature", nil, w, nil}
		c05Run(c, sc, 1)
		sc.input = cat(w, r.Bytes(1+r.Intn(9)))
		c05Run(c, sc, 1)
		sc.input = flip(w, 0, len(w)-64)
		c05Run(c, sc, -1)
		sc.input = flip(w, len(w)-64, len(w))
		c05Run(c, sc, 0)
		{ // bytes smuggled into a region a lenient parser skips: 1-5 junk bytes inside the options mapping
			ri2 := ri
			junk := r.Bytes(1 + r.Intn(5))
			enc := ri2.Encode()
			optStart := len(enc) - 64 - len(encodeMapping(ri2.Opts))
			m := encodeMappingPairs(ri2.Opts)
			smug := cat(enc[:optStart], u16(len(m)+len(junk)), m, junk, enc[len(enc)-64:])
			sc.input = smug
			c05Run(c, sc, -1)
		}
		{ // key replaced, signature kept
			ri2 := ri
			ri2.Ident.Spk = cp(attacker.pub)
			sc.input = ri2.Encode()
			c05Run(c, sc, 0)
		}
		if i < 3 {
			// the other region a lenient parser may skip: pairs beyond the parser's pair limit. An
			// authentic RouterInfo whose options hold 998 / 999 / 1000 pairs (the limit is 1000), then
			// the same bytes with two more pairs spliced into the mapping and its size field raised:
			// whatever the parser does with them, "verified" must mean the received bytes are signed
			big := ri
			big.Opts = nil
			for j := 0; j < 998+i; j++ {
				big.Opts = append(big.Opts, KV{[]byte(fmt.Sprintf("k%04d", j)), []byte{byte('a' + j%26)}})
			}
			big.Sig = nil
			big.Sig = ed25519.Sign(k.priv, big.Encode())
			enc := big.Encode()
			sc.input = enc
			c05Run(c, sc, 1)
			optStart := len(enc) - 64 - len(encodeMapping(big.Opts))
			m := encodeMappingPairs(big.Opts)
			extra := encodeMappingPairs([]KV{{[]byte("zz1"), []byte("evil")}, {[]byte("zz2"), []byte("evil")}})
			sc.input = cat(enc[:optStart], u16(len(m)+len(extra)), m, extra, enc[len(enc)-64:])
			c05Run(c, sc, -1)
		}
		// ---- LeaseSet
		ls := signLeaseSet(r, k, sigType)
		w = ls.Encode()
		sc = signedCase{E_VerifyLeaseSet, "LeaseSet.Verify", nil, w, nil}
		c05Run(c, sc, 1)
		sc.input = flip(w, 0, len(w)-64)
		c05Run(c, sc, -1)
		sc.input = flip(w, len(w)-64, len(w))
		c05Run(c, sc, 0)
		{ // the LeaseSet's own signing-key field replaced by the attacker's key, re-signed by the attacker
			ls2 := ls
			ls2.Spk = cp(attacker.pub)
			ls2.Sig = nil
			ls2.Sig = ed25519.Sign(attacker.priv, ls2.Encode())
			sc.input = ls2.Encode()
			c05Run(c, sc, 0)
		}
		{ // signed by the attacker over the victim's destination
			ls2 := ls
			ls2.Sig = nil
			ls2.Sig = ed25519.Sign(attacker.priv, ls2.Encode())
			sc.input = ls2.Encode()
			c05Run(c, sc, 0)
		}
		if i < 12 {
			// authentic under a legacy DSA identity: NULL certificate (ElGamal + DSA-SHA1), and KEY
			// certificates declaring DSA next to a 256-byte and next to a 32-byte encryption key (the
			// signing key then fills its 128-byte field and all padding lies next to the encryption
			// key); every byte of the destination is covered by the signature
			dk := genDSA(r)
			var id Ident
			switch i % 3 {
			case 0:
				id = genIdentTypes(r, 0, 0, true)
			case 1:
				id = genIdentTypes(r, 0, 0, false)
			default:
				id = genIdentTypes(r, 0, 4, false)
			}
			id.Spk = cp(dk.pub)
			for j := range id.Pad {
				id.Pad[j] |= 1
			}
			dl := genLeaseSet(r)
			dl.Dest = id
			dl.Spk = cp(dk.pub)
			dl.Sig = nil
			dl.Sig = dsaSign(r, dk, dl.Encode())
			wd := dl.Encode()
			scd := signedCase{E_VerifyLeaseSet, "LeaseSet.Verify (DSA identity)", nil, wd, nil}
			c05Run(c, scd, 1)
			// one bit flipped anywhere in the destination (keys, padding, certificate): not authentic
			for _, pos := range []int{0, 31, 32, 100, 255, 256, 300, 383, len(id.Encode()) - 1} {
				m := cp(wd)
				m[pos] ^= 1 << uint(r.Intn(8))
				scd.input = m
				c05Run(c, scd, -1)
			}
		}
		{ // other signing types with a random signature never verify
			l3 := genLeaseSet(r)
			sc.input = l3.Encode()
			c05Run(c, sc, 0)
		}
		// ---- LeaseSet2 / MetaLeaseSet / EncryptedLeaseSet, with and without offline keys
		for _, offline := range []bool{false, true} {
			l2, tkey := signLS2(r, k, sigType, offline)
			w = l2.Encode()
			sc = signedCase{E_VerifyLeaseSet2, "LeaseSet2.Verify", []byte{3}, w, nil}
			auth := 1
			if len(w) < lease_set2.LEASESET2_MIN_SIZE {
				auth = -1
			}
			c05Run(c, sc, auth)
			sc.input = flip(w, 0, len(w)-64)
			c05Run(c, sc, -1)
			sc.input = flip(w, len(w)-64, len(w))
			c05Run(c, sc, 0)
			{ // store-type prefix matters: a signature over the bare content must not verify
				l3 := l2
				signer := k
				if offline {
					// re-create with a known transient key
					t := genEd(r)
					o := signOffline(r, k, t)
					l3.H.Offline = &o
					signer = t
				}
				l3.Sig = nil
				l3.Sig = ed25519.Sign(signer.priv, l3.Encode())
				sc.input = l3.Encode()
				c05Run(c, sc, 0)
			}
			if offline {
				// forged offline block: attacker's transient key, meaningless offline signature
				l3 := l2
				o := Offline{Expires: 99, SigType: 7, Key: cp(attacker.pub), Sig: r.Bytes(64)}
				l3.H.Offline = &o
				l3.Sig = nil
				l3.Sig = ed25519.Sign(attacker.priv, cat([]byte{3}, l3.Encode()))
				sc.input = l3.Encode()
				c05Run(c, sc, 0)
				// the same forgery in the shapes on which checking the offline block cannot even be
				// attempted (the check returns an error, not "false"): an expiry of zero, and identities
				// whose signing type the library cannot verify (DSA, ECDSA) — still not authentic
				{
					l6 := l2
					o6 := Offline{Expires: 0, SigType: 7, Key: cp(attacker.pub), Sig: r.Bytes(64)}
					l6.H.Offline = &o6
					l6.Sig = nil
					l6.Sig = ed25519.Sign(attacker.priv, cat([]byte{3}, l6.Encode()))
					sc.input = l6.Encode()
					c05Run(c, sc, 0)
					for _, dst := range []int{0, 1, 2} {
						l7 := l2
						l7.H.Dest = genIdentTypes(r, dst, []int{0, 4}[r.Intn(2)], false)
						o7 := Offline{Expires: 4000000000, SigType: 7, Key: cp(attacker.pub), Sig: r.Bytes(specSigLen[dst])}
						l7.H.Offline = &o7
						l7.Sig = nil
						l7.Sig = ed25519.Sign(attacker.priv, cat([]byte{3}, l7.Encode()))
						sc.input = l7.Encode()
						c05Run(c, sc, 0)
					}
				}
				// offline block transplanted from another identity
				other := genEd(r)
				t := genEd(r)
				o2 := signOffline(r, other, t)
				l4 := l2
				l4.H.Offline = &o2
				l4.Sig = nil
				l4.Sig = ed25519.Sign(t.priv, cat([]byte{3}, l4.Encode()))
				sc.input = l4.Encode()
				c05Run(c, sc, 0)
				// after the genuine structure has been verified (above, in this process): the
				// offline block's expiry or transient type rewritten WITHOUT the identity signing
				// again — original offline signature kept — and the structure re-signed by the
				// legitimate transient key.  The identity never authorised these blocks.
				for _, edit := range []int{0, 1} {
					l5 := l2
					o5 := *l2.H.Offline
					if edit == 0 {
						o5.Expires += 1000000
					} else {
						o5.SigType = 11
					}
					l5.H.Offline = &o5
					l5.Sig = nil
					l5.Sig = ed25519.Sign(tkey.priv, cat([]byte{3}, l5.Encode()))
					sc.input = l5.Encode()
					c05Run(c, sc, 0)
				}
			} else {
				// signed by the attacker
				l3 := l2
				l3.Sig = nil
				l3.Sig = ed25519.Sign(attacker.priv, cat([]byte{3}, l3.Encode()))
				sc.input = l3.Encode()
				c05Run(c, sc, 0)
				// identity key replaced, signature kept
				l4 := l2
				l4.H.Dest.Spk = cp(attacker.pub)
				sc.input = l4.Encode()
				c05Run(c, sc, 0)
			}
			m := signMeta(r, k, sigType, offline)
			w = m.Encode()
			sc = signedCase{E_VerifyMetaLeaseSet, "MetaLeaseSet.Verify", []byte{7}, w, nil}
			c05Run(c, sc, 1)
			sc.input = flip(w, 0, len(w)-64)
			c05Run(c, sc, -1)
			sc.input = flip(w, len(w)-64, len(w))
			c05Run(c, sc, 0)
			if offline {
				{
					m6 := m
					o6 := Offline{Expires: 0, SigType: 7, Key: cp(attacker.pub), Sig: r.Bytes(64)}
					m6.H.Offline = &o6
					m6.Sig = nil
					m6.Sig = ed25519.Sign(attacker.priv, cat([]byte{7}, m6.Encode()))
					c05Run(c, signedCase{E_VerifyMetaLeaseSet, "MetaLeaseSet.Verify", []byte{7}, m6.Encode(), nil}, 0)
					for _, dst := range []int{0, 1, 2} {
						m7 := m
						m7.H.Dest = genIdentTypes(r, dst, []int{0, 4}[r.Intn(2)], false)
						o7 := Offline{Expires: 4000000000, SigType: 7, Key: cp(attacker.pub), Sig: r.Bytes(specSigLen[dst])}
						m7.H.Offline = &o7
						m7.Sig = nil
						m7.Sig = ed25519.Sign(attacker.priv, cat([]byte{7}, m7.Encode()))
						c05Run(c, signedCase{E_VerifyMetaLeaseSet, "MetaLeaseSet.Verify", []byte{7}, m7.Encode(), nil}, 0)
					}
				}
				m3 := m
				o := Offline{Expires: 99, SigType: 7, Key: cp(attacker.pub), Sig: r.Bytes(64)}
				m3.H.Offline = &o
				m3.Sig = nil
				m3.Sig = ed25519.Sign(attacker.priv, cat([]byte{7}, m3.Encode()))
				sc.input = m3.Encode()
				c05Run(c, sc, 0)
			} else {
				m3 := m
				m3.Sig = nil
				m3.Sig = ed25519.Sign(attacker.priv, cat([]byte{7}, m3.Encode()))
				sc.input = m3.Encode()
				c05Run(c, sc, 0)
			}
			e := signEnc(r, k, sigType, offline)
			w = e.Encode()
			sc = signedCase{E_VerifyEncryptedLeaseSet, "EncryptedLeaseSet.Verify", []byte{5}, w, nil}
			c05Run(c, sc, 1)
			sc.input = flip(w, 0, len(w)-64)
			c05Run(c, sc, -1)
			sc.input = flip(w, len(w)-64, len(w))
			c05Run(c, sc, 0)
			if offline {
				e3 := e
				o := Offline{Expires: 99, SigType: 7, Key: cp(attacker.pub), Sig: r.Bytes(64)}
				e3.Offline = &o
				e3.Sig = nil
				e3.Sig = ed25519.Sign(attacker.priv, cat([]byte{5}, e3.Encode()))
				sc.input = e3.Encode()
				c05Run(c, sc, 0)
			} else {
				e3 := e
				e3.Key = cp(attacker.pub)
				sc.input = e3.Encode()
				c05Run(c, sc, 0)
			}
		}
		// ---- OfflineSignature on its own
		t := genEd(r)
		o := signOffline(r, k, t)
		dt := []int{7, 11}[r.Intn(2)]
		sc = signedCase{E_VerifyOfflineSignature, "OfflineSignature.VerifySignature", nil, o.Encode(), [][]byte{u64b(uint64(dt)), cp(k.pub)}}
		c05Run(c, sc, 1)
		sc.input = flip(o.Encode(), 0, len(o.Encode()))
		c05Run(c, sc, -1)
		sc.extra = [][]byte{u64b(uint64(dt)), cp(attacker.pub)}
		sc.input = o.Encode()
		c05Run(c, sc, 0)
		sc.extra = [][]byte{u64b(8), cp(k.pub)}
		c05Run(c, sc, -1)
	}
	// zero values never verify
	{
		var ri router_info.RouterInfo
		ok, _ := func() (ok bool, err error) {
			defer func() {
				if recover() != nil {
					ok = false
				}
			}()
			return ri.VerifySignature()
		}()
		var l2 lease_set2.LeaseSet2
		v2 := func() (v bool) {
			defer func() {
				if recover() != nil {
					v = false
				}
			}()
			return l2.Verify() == nil
		}()
		var o offline_signature.OfflineSignature
		ov, _ := o.VerifySignature(make([]byte, 32))
		c.Check("zero_value_not_verified", !ok && !v2 && !ov, "zero values", nil, "", "a zero value verified")
	}
	_ = fmt.Sprintf
}

func stdPriv(k edKey) interface{} { return ed25519.PrivateKey(k.priv) }
