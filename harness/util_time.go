package main

import "time"

var zeroTime time.Time
