package main

import (
	"fmt"

	"github.com/go-i2p/common/certificate"
	"github.com/go-i2p/common/key_certificate"
	"github.com/go-i2p/common/destination"
	"github.com/go-i2p/common/keys_and_cert"
	"github.com/go-i2p/common/lease_set"
	"github.com/go-i2p/common/lease_set2"
	"github.com/go-i2p/common/meta_leaseset"
	"github.com/go-i2p/common/router_identity"
	"github.com/go-i2p/common/router_info"
)

func init() { props["C09"] = runC09 }

func typesOf(k *keys_and_cert.KeysAndCert) (int, int) {
	return k.KeyCertificate.SigningPublicKeyType(), k.KeyCertificate.PublicKeyType()
}

// C09: no API path yields a Destination / RouterIdentity with prohibited key types, and
// permitted supported combinations are not rejected.
func runC09(c *Ctx) {
	r := c.R
	sigs := []int{0, 1, 2, 3, 4, 5, 6, 7, 8, 9, 10, 11, 12}
	crs := []int{0, 1, 2, 3, 4, 5, 6, 7, 8}
	for i := 0; i < c.N(12, 100); i++ { // unknown codes, sampled
		sigs = append(sigs, 13+r.Intn(65523))
		crs = append(crs, 9+r.Intn(65527))
	}
	byName := map[string]*Parser{}
	for i := range parsers {
		byName[parsers[i].Name] = &parsers[i]
	}
	supported := func(s, cr int) bool {
		okS, okC := false, false
		for _, x := range libSigSupported {
			okS = okS || x == s
		}
		for _, x := range libCryptoSupported {
			okC = okC || x == cr
		}
		return okS && okC
	}
	checkDest := func(path string, in []byte, k *keys_and_cert.KeysAndCert) {
		if k == nil || k.KeyCertificate == nil {
			return
		}
		s, cr := typesOf(k)
		c.Check("destination_types_permitted", !specDestDenySig[s] && !specDenyCrypto[cr], path, [][]byte{in}, "",
			fmt.Sprintf("%s yielded a Destination with signing type %d, crypto type %d", path, s, cr))
	}
	checkRI := func(path string, in []byte, k *keys_and_cert.KeysAndCert) {
		if k == nil || k.KeyCertificate == nil {
			return
		}
		s, cr := typesOf(k)
		c.Check("router_identity_types_permitted", !specRIDenySig[s] && !specDenyCrypto[cr], path, [][]byte{in}, "",
			fmt.Sprintf("%s yielded a RouterIdentity with signing type %d, crypto type %d", path, s, cr))
	}
	for _, s := range sigs {
		for _, cr := range crs {
			for rep := 0; rep < c.N(1, 2); rep++ {
				id := genIdentTypes(r, s, cr, false)
				w := id.Encode()
				// the type filters themselves (model: regenerated deny tables)
				c.Case(E_DestAllowed, [][]byte{i64(int64(s)), i64(int64(cr))}, func() Obs {
					// observable through NewDestination on a struct carrying these types
					k := &keys_and_cert.KeysAndCert{KeyCertificate: kcFor(s, cr)}
					_ = k
					return OK(bool1(!destDeniedImpl(s, cr)))
				})
				if kc := kcFor(s, cr); kc != nil && (specDestDenySig[s] || specDenyCrypto[cr]) {
					// whatever else is wrong with the value, NewDestination never hands back a Destination
					// declaring a prohibited pair
					k := &keys_and_cert.KeysAndCert{KeyCertificate: kc, ReceivingPublic: newFakeKey(kc.CryptoSize()), SigningPublic: newFakeSPK(kc.SigningPublicKeySize())}
					if pad := 384 - kc.CryptoSize() - kc.SigningPublicKeySize(); pad > 0 {
						k.Padding = make([]byte, pad)
					}
					nd, derr := destination.NewDestination(k)
					c.Check("destination_types_permitted", derr != nil || nd == nil, "NewDestination", [][]byte{i64(int64(s)), i64(int64(cr))}, "",
						fmt.Sprintf("NewDestination returned a Destination declaring the prohibited pair (signing %d, crypto %d)", s, cr))
				}
				if kc := kcFor(s, cr); kc != nil && 384-kc.CryptoSize()-kc.SigningPublicKeySize() >= 0 {
					c.Case(E_RIAllowed, [][]byte{i64(int64(s)), i64(int64(cr))}, func() Obs { return OK(bool1(!riDeniedImpl(s, cr))) })
					if specRIDenySig[s] || specDenyCrypto[cr] {
						c.Check("router_identity_types_permitted", riDeniedImpl(s, cr), "NewRouterIdentity", [][]byte{i64(int64(s)), i64(int64(cr))}, "",
							fmt.Sprintf("NewRouterIdentity returned a RouterIdentity declaring the prohibited pair (signing %d, crypto %d)", s, cr))
					}
				}
				// direct readers
				pd := runParser(c, byName["ReadDestination"], w, nil)
				if pd.OK {
					checkDest("ReadDestination", w, pd.Val.(*destination.Destination).KeysAndCert)
				}
				if supported(s, cr) && !specDestDenySig[s] && !specDenyCrypto[cr] {
					c.Check("permitted_destination_accepted", pd.OK, "ReadDestination", [][]byte{w}, "", fmt.Sprintf("permitted supported pair (%d,%d) rejected", s, cr))
				}
				if dp, _, err := destination.NewDestinationFromBytes(w); err == nil && dp != nil {
					checkDest("NewDestinationFromBytes", w, dp.KeysAndCert)
				}
				pk := runParser(c, byName["ReadKeysAndCert"], w, nil)
				if pk.OK {
					if nd, err := destination.NewDestination(pk.Val.(*keys_and_cert.KeysAndCert)); err == nil && nd != nil {
						checkDest("NewDestination", w, nd.KeysAndCert)
					}
				}
				pr := runParser(c, byName["ReadRouterIdentity"], w, nil)
				if pr.OK {
					ri := pr.Val.(*router_identity.RouterIdentity)
					checkRI("ReadRouterIdentity", w, ri.KeysAndCert)
					d := ri.AsDestination()
					checkDest("RouterIdentity.AsDestination", w, d.KeysAndCert)
				}
				if supported(s, cr) && !specRIDenySig[s] && !specDenyCrypto[cr] {
					c.Check("permitted_router_identity_accepted", pr.OK, "ReadRouterIdentity", [][]byte{w}, "", fmt.Sprintf("permitted supported pair (%d,%d) rejected", s, cr))
				}
				if ri2, _, err := router_identity.NewRouterIdentityFromBytes(w); err == nil && ri2 != nil {
					checkRI("NewRouterIdentityFromBytes", w, ri2.KeysAndCert)
				}
				if pk.OK {
					k := pk.Val.(*keys_and_cert.KeysAndCert)
					if ri3, err := router_identity.NewRouterIdentity(k.ReceivingPublic, k.SigningPublic, k.Certificate(), k.Padding); err == nil && ri3 != nil {
						checkRI("NewRouterIdentity", w, ri3.KeysAndCert)
					}
				}
				// embedded in the composite structures
				slen, okS := specSigLen[s]
				if !okS {
					slen = 64
				}
				spkLen, okK := specSigPubLen[s]
				if !okK || spkLen > 128 {
					spkLen = 32
				}
				enc := r.Bytes(256)
				enc[0] &= 0x7f
				enc[255] |= 2
				spk := r.Bytes(spkLen)
				if s == 0 {
					spk[0] &= 0x7f
					spk[127] |= 2
				}
				lsB := cat(w, enc, spk, []byte{1}, genLease(r), r.Bytes(slen))
				if p := runParser(c, byName["ReadLeaseSet"], lsB, nil); p.OK {
					d := p.Val.(*lease_set.LeaseSet).Destination()
					checkDest("ReadLeaseSet", lsB, d.KeysAndCert)
				}
				if d, _, err := lease_set.ReadDestinationFromLeaseSet(lsB); err == nil {
					checkDest("ReadDestinationFromLeaseSet", lsB, d.KeysAndCert)
				}
				ls2B := cat(w, u32(1), u16(1), u16(0), []byte{0, 0, 1}, u16(4), u16(32), r.Bytes(32), []byte{2}, genLease2(r), genLease2(r), r.Bytes(slen), make([]byte, 40))
				if p := runParser(c, byName["ReadLeaseSet2"], ls2B, nil); p.OK {
					d := p.Val.(*lease_set2.LeaseSet2).Destination()
					checkDest("ReadLeaseSet2", ls2B, d.KeysAndCert)
				}
				mB := cat(w, u32(1), u16(1), u16(0), []byte{0, 0, 2}, r.Bytes(32), []byte{3}, u32(9), []byte{1, 0, 0}, r.Bytes(32), []byte{1}, u32(9), []byte{1, 0, 0}, r.Bytes(slen), make([]byte, 40))
				if p := runParser(c, byName["ReadMetaLeaseSet"], mB, nil); p.OK {
					d := p.Val.(*meta_leaseset.MetaLeaseSet).Destination()
					checkDest("ReadMetaLeaseSet", mB, d.KeysAndCert)
				}
				// the same two structures with the OFFLINE_KEYS flag and an offline-signature block
				// (transient Ed25519 key; the block's signature has the destination type's length):
				// "offline only" signing types are still prohibited in the Destination itself
				offB := cat(u32(4000000000), u16(7), r.Bytes(32), r.Bytes(slen))
				ls2O := cat(w, u32(1), u16(1), u16(1), offB, []byte{0, 0, 1}, u16(4), u16(32), r.Bytes(32), []byte{2}, genLease2(r), genLease2(r), r.Bytes(64), make([]byte, 40))
				if p := runParser(c, byName["ReadLeaseSet2"], ls2O, nil); p.OK {
					d := p.Val.(*lease_set2.LeaseSet2).Destination()
					checkDest("ReadLeaseSet2(offline keys)", ls2O, d.KeysAndCert)
				}
				mO := cat(w, u32(1), u16(1), u16(1), offB, []byte{0, 0, 2}, r.Bytes(32), []byte{3}, u32(9), []byte{1, 0, 0}, r.Bytes(32), []byte{1}, u32(9), []byte{1, 0, 0}, r.Bytes(64), make([]byte, 40))
				if p := runParser(c, byName["ReadMetaLeaseSet"], mO, nil); p.OK {
					d := p.Val.(*meta_leaseset.MetaLeaseSet).Destination()
					checkDest("ReadMetaLeaseSet(offline keys)", mO, d.KeysAndCert)
				}
				riB := cat(w, u64e(1700000000000), []byte{0, 0, 0, 0}, r.Bytes(slen))
				if p := runParser(c, byName["ReadRouterInfo"], riB, nil); p.OK {
					ri := p.Val.(*router_info.RouterInfo).RouterIdentity()
					if ri != nil {
						checkRI("ReadRouterInfo", riB, ri.KeysAndCert)
					}
				}
			}
		}
	}
	c09ConstructedFromCallerBuffers(c)
}

// c09ConstructedFromCallerBuffers: identities built through the constructors from buffers the caller
// owns (the certificate payload carrying the two type codes, the padding) and then reuses for the
// next identity, as a loop filling one scratch buffer does: a value the constructor returned for a
// permitted pair must go on declaring that pair, whatever the caller writes into its buffers later
func c09ConstructedFromCallerBuffers(c *Ctx) {
	type held struct {
		path string
		k    *keys_and_cert.KeysAndCert
		s    int
		cr   int
		ri   bool
	}
	var values []held
	payload := make([]byte, 4) // one scratch buffer, reused for every certificate
	pad := make([]byte, 384)
	for _, s := range libSigSupported {
		for _, cr := range libCryptoSupported {
			copy(payload, cat(u16(s), u16(cr)))
			cert, err := certificate.NewCertificateWithType(5, payload)
			if err != nil || cert == nil {
				continue
			}
			kc, kerr := key_certificate.KeyCertificateFromCertificate(cert)
			if kerr != nil || kc == nil {
				continue
			}
			need := 384 - kc.CryptoSize() - kc.SigningPublicKeySize()
			if need < 0 {
				continue
			}
			if ri, e := router_identity.NewRouterIdentity(newFakeKey(kc.CryptoSize()), newFakeSPK(kc.SigningPublicKeySize()), cert, pad[:need]); e == nil && ri != nil {
				values = append(values, held{"NewRouterIdentity", ri.KeysAndCert, s, cr, true})
			}
			if k, e := keys_and_cert.NewKeysAndCert(kc, newFakeKey(kc.CryptoSize()), pad[:need], newFakeSPK(kc.SigningPublicKeySize())); e == nil && k != nil {
				if d, e2 := destination.NewDestination(k); e2 == nil && d != nil {
					values = append(values, held{"NewDestination", d.KeysAndCert, s, cr, false})
				}
			}
		}
	}
	// the caller moves on: its scratch buffers now hold other type codes and other padding
	for _, fill := range [][]byte{cat(u16(11), u16(6)), cat(u16(8), u16(5)), {0xff, 0xff, 0xff, 0xff}} {
		copy(payload, fill)
		for i := range pad {
			pad[i] ^= 0x5a
		}
		for _, h := range values {
			if h.k == nil || h.k.KeyCertificate == nil {
				continue
			}
			s, cr := typesOf(h.k)
			args := [][]byte{cat(u16(h.s), u16(h.cr)), fill}
			if h.ri {
				c.Check("router_identity_types_permitted", s == h.s && cr == h.cr && !specRIDenySig[s] && !specDenyCrypto[cr], h.path+" (caller reuses its buffers)", args, "",
					fmt.Sprintf("a RouterIdentity built for (%d,%d) now declares (%d,%d)", h.s, h.cr, s, cr))
			} else {
				c.Check("destination_types_permitted", s == h.s && cr == h.cr && !specDestDenySig[s] && !specDenyCrypto[cr], h.path+" (caller reuses its buffers)", args, "",
					fmt.Sprintf("a Destination built for (%d,%d) now declares (%d,%d)", h.s, h.cr, s, cr))
			}
		}
	}
}

// the filters as the implementation applies them, observed through its own constructors
func destDeniedImpl(s, cr int) bool {
	kc := kcFor(s, cr)
	if kc == nil {
		return false
	}
	k := &keys_and_cert.KeysAndCert{KeyCertificate: kc, ReceivingPublic: newFakeKey(kc.CryptoSize()), SigningPublic: newFakeSPK(kc.SigningPublicKeySize())}
	_, err := destination.NewDestination(k)
	if err == nil {
		return false
	}
	// distinguish "invalid KeysAndCert" from the type filter
	return k.Validate() == nil
}
func riDeniedImpl(s, cr int) bool {
	kc := kcFor(s, cr)
	if kc == nil {
		return false
	}
	pad := 384 - kc.CryptoSize() - kc.SigningPublicKeySize()
	if pad < 0 {
		return false // not observable through the constructor; the caller skips these pairs
	}
	_, err := router_identity.NewRouterIdentity(newFakeKey(kc.CryptoSize()), newFakeSPK(kc.SigningPublicKeySize()), &kc.Certificate, make([]byte, pad))
	return err != nil
}
