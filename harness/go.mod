module verif/harness

go 1.24.5

toolchain go1.24.12

require (
	github.com/go-i2p/common v0.0.0
	github.com/go-i2p/crypto v0.1.4-0.20260218221204-a8834457f3f1
	go.step.sm/crypto v0.76.0
)

require (
	filippo.io/edwards25519 v1.1.0 // indirect
	github.com/cespare/xxhash/v2 v2.3.0 // indirect
	github.com/go-i2p/elgamal v0.0.2 // indirect
	github.com/go-i2p/logger v0.1.2 // indirect
	github.com/oklog/ulid/v2 v2.1.1 // indirect
	github.com/samber/lo v1.52.0 // indirect
	github.com/samber/oops v1.21.0 // indirect
	github.com/sirupsen/logrus v1.9.4 // indirect
	go.opentelemetry.io/otel v1.39.0 // indirect
	go.opentelemetry.io/otel/trace v1.39.0 // indirect
	golang.org/x/crypto v0.47.0 // indirect
	golang.org/x/sys v0.40.0 // indirect
	golang.org/x/text v0.33.0 // indirect
)

replace github.com/go-i2p/common => /repo
