package main

import (
	cryptodsa "github.com/go-i2p/crypto/dsa"
	"reflect"
	"bytes"
	"crypto/ed25519"
	"fmt"
	"time"

	"github.com/go-i2p/common/data"
	"github.com/go-i2p/common/destination"
	"github.com/go-i2p/common/encrypted_leaseset"
	"github.com/go-i2p/common/keys_and_cert"
	"github.com/go-i2p/common/lease"
	"github.com/go-i2p/common/lease_set"
	"github.com/go-i2p/common/lease_set2"
	"github.com/go-i2p/common/offline_signature"
	"github.com/go-i2p/common/router_address"
	"github.com/go-i2p/common/router_identity"
	"github.com/go-i2p/common/router_info"
	cryptoed "github.com/go-i2p/crypto/ed25519"
	"github.com/go-i2p/crypto/elg"
)

func init() { props["C06"] = runC06 }

func genOptionsMap(r *Rng) map[string]string {
	m := map[string]string{}
	for _, kv := range genSmallKVs(r) {
		if len(kv.K) == 0 && r.Bool() {
			continue
		}
		m[string(kv.K)] = string(kv.V)
	}
	if r.Intn(3) == 0 {
		m["caps"] = "fR"
		m["router.version"] = "0.9.67"
	}
	if r.Intn(3) == 0 {
		m["z"] = "" // a final pair shorter than six bytes on the wire
	}
	if r.Intn(6) == 0 {
		m[""] = "e" // the empty key: legal in a mapping, sorted first
	}
	return m
}

// C06: whatever the library signs it also verifies, before and after the wire.
func runC06(c *Ctx) {
	r := c.R
	n := c.N(60, 2500)
	for i := 0; i < n; i++ {
		k := genEd(r)
		priv := cryptoed.Ed25519PrivateKey(k.priv)
		// ---- RouterInfo
		{
			id := genSignedIdent(r, k, 7, true)
			ri, _, err := router_identity.ReadRouterIdentity(id.Encode())
			if err == nil {
				var addrs []*router_address.RouterAddress
				na := genCount(r, 5)
				if r.Intn(40) == 0 {
					na = 255
				}
				for j := 0; j < na; j++ {
					a, aerr := router_address.NewRouterAddress(uint8(r.Intn(256)), time.Time{}, []string{"NTCP2", "SSU2", "x"}[r.Intn(3)], genOptionsMap(r))
					if aerr == nil {
						addrs = append(addrs, a)
					}
				}
				pub := time.UnixMilli(int64(r.U64() >> uint(20+r.Intn(20))))
				riOpts := genOptionsMap(r)
				// an options mapping in the upper half of the 16-bit size range (32 KiB and more): once on the
				// RouterInfo, once on an address
				bigOpts := func() map[string]string {
					m := map[string]string{}
					for j := 0; len(m) < 66+r.Intn(60); j++ {
						kk := make([]byte, 250)
						for q := range kk {
							kk[q] = keyAlphabet[r.Intn(26)]
						}
						vv := make([]byte, 200+r.Intn(50))
						for q := range vv {
							vv[q] = keyAlphabet[r.Intn(26)]
						}
						m[string(kk)] = string(vv)
					}
					return m
				}
				if i == 1 {
					riOpts = bigOpts()
				}
				if i == 2 {
					if a, aerr := router_address.NewRouterAddress(3, time.Time{}, "NTCP2", bigOpts()); aerr == nil {
						addrs = append(addrs, a)
					}
				}
				info, nerr := router_info.NewRouterInfo(ri, pub, addrs, riOpts, &priv, 7)
				if nerr == nil {
					ok1, e1 := info.VerifySignature()
					b, berr := info.Bytes()
					c.Check("signed_verifies_before_wire", ok1 && e1 == nil && berr == nil, "NewRouterInfo", [][]byte{b}, "", fmt.Sprintf("VerifySignature()=%v,%v", ok1, e1))
					if ok1 && e1 == nil && berr == nil {
						okq, dq := verifiesAfterQueries(info)
						c.Check("signed_verifies_before_wire", okq, "NewRouterInfo", [][]byte{b}, "", dq)
					}
					if berr == nil {
						sc := signedCase{E_VerifyRouterInfo, "RouterInfo.VerifySignature", nil, b, nil}
						var v bool
						c.Case(sc.entry, [][]byte{b}, func() Obs { v, _, _ = c05Impl(sc); return OK(bool1(v)) })
						p2, rem, perr := router_info.ReadRouterInfo(b)
						okw := perr == nil && len(rem) == 0
						if okw {
							ok2, e2 := p2.VerifySignature()
							okw = ok2 && e2 == nil
						}
						c.Check("signed_verifies_after_wire", okw && v, "NewRouterInfo", [][]byte{b}, "", fmt.Sprintf("parse err=%v rem=%d", perr, len(rem)))
						if okw {
							okq, dq := verifiesAfterQueries(&p2)
							c.Check("signed_verifies_after_wire", okq, "NewRouterInfo", [][]byte{b}, "", dq)
						}
					}
				} else {
					// a router without addresses is inadmissible by the library's own RouterInfo.Validate
					// (C14), so the constructor refusing it produces nothing that C06 speaks about
					c.Check("constructor_accepts_admissible", na > 255 || len(addrs) == 0, "NewRouterInfo", nil, "", fmt.Sprintf("NewRouterInfo failed: %v", nerr))
				}
			}
		}
		// ---- LeaseSet under a legacy DSA identity: NULL-certificate destination (ElGamal + DSA-SHA1,
		// the default sizes apply: 128-byte signing key, 40-byte signature) and a KEY certificate
		// declaring DSA; signed by the library with a DSA key, checked independently with crypto/dsa
		if i < 8 {
			dk := genDSA(r)
			dcr := 0
			if i%4 == 3 { // X25519 + DSA-SHA1 under a KEY certificate: the signing key fills its 128-byte field
				dcr = 4
			}
			id := genIdentTypes(r, 0, dcr, i%2 == 0 && dcr == 0)
			id.Spk = cp(dk.pub)
			d, _, derr := destination.ReadDestination(id.Encode())
			dpriv, perr := cryptodsa.NewDSAPrivateKey(dk.x)
			c.Check("constructor_accepts_admissible", derr == nil && perr == nil, "ReadDestination (DSA identity)", [][]byte{id.Encode()}, "", fmt.Sprintf("crypto %d: ReadDestination: %v, DSA private key: %v", dcr, derr, perr))
			if derr == nil && perr == nil {
				// the caller's destination is assembled from its parts (as key-generation code does),
				// with exactly the padding of the identity: nothing has been through a parser yet
				if d.KeysAndCert != nil {
					k := &keys_and_cert.KeysAndCert{KeyCertificate: d.KeyCertificate, ReceivingPublic: d.ReceivingPublic, Padding: cp(id.Pad), SigningPublic: d.SigningPublic}
					if d2, e := destination.NewDestination(k); e == nil && d2 != nil {
						d = *d2
					}
				}
				encB := r.Bytes(256)
				encB[0] &= 0x7f
				encB[255] |= 2
				var ek elg.ElgPublicKey
				copy(ek[:], encB)
				spk, _ := d.SigningPublicKey()
				var leases []lease.Lease
				for j := 0; j < []int{0, 1, 2, 16}[i%4]; j++ {
					var l lease.Lease
					copy(l[:], genLease(r))
					leases = append(leases, l)
				}
				ls, nerr := lease_set.NewLeaseSet(d, ek, spk, leases, &dpriv)
				if nerr != nil {
					c.Check("constructor_accepts_admissible", false, "NewLeaseSet (DSA identity)", nil, "", fmt.Sprintf("NewLeaseSet failed: %v", nerr))
				} else {
					b, berr := ls.Bytes()
					okv := ls.Verify() == nil && berr == nil
					c.Check("signed_verifies_before_wire", okv, "NewLeaseSet (DSA identity)", [][]byte{b}, "", "Verify() failed on constructor output")
					if berr == nil {
						p2, perr2 := lease_set.ReadLeaseSet(b)
						okw := perr2 == nil && p2.Verify() == nil
						indep := len(b) > 40 && dsaVerify(dk.pub, b[:len(b)-40], b[len(b)-40:])
						c.Check("signed_verifies_after_wire", okw && indep, "NewLeaseSet (DSA identity)", [][]byte{b}, "",
							fmt.Sprintf("NULL certificate=%v: parse err=%v, independent DSA check over the serialisation=%v", i%2 == 0, perr2, indep))
					}
				}
			}
		}
		// ---- LeaseSet
		{
			sigType := []int{7, 11}[r.Intn(2)]
			id := genSignedIdent(r, k, sigType, false)
			d, _, err := destination.ReadDestination(id.Encode())
			if err == nil {
				encB := r.Bytes(256)
				encB[0] &= 0x7f
				encB[255] |= 2
				var ek elg.ElgPublicKey
				copy(ek[:], encB)
				spk, _ := d.SigningPublicKey()
				var leases []lease.Lease
				nLeases := genCount(r, 16)
				if i < 3 {
					nLeases = []int{16, 0, 1}[i] // the ends of the 0..16 range, every run
				}
				for j := 0; j < nLeases; j++ {
					var l lease.Lease
					copy(l[:], genLease(r))
					leases = append(leases, l)
				}
				ls, nerr := lease_set.NewLeaseSet(d, ek, spk, leases, &priv)
				if nerr == nil {
					b, berr := ls.Bytes()
					okv := ls.Verify() == nil && berr == nil
					c.Check("signed_verifies_before_wire", okv, "NewLeaseSet", [][]byte{b}, "", "Verify() failed on constructor output")
					if okv {
						okq, dq := verifiesAfterQueries(&ls)
						c.Check("signed_verifies_before_wire", okq, "NewLeaseSet", [][]byte{b}, "", dq)
					}
					if berr == nil {
						sc := signedCase{E_VerifyLeaseSet, "LeaseSet.Verify", nil, b, nil}
						var v bool
						c.Case(sc.entry, [][]byte{b}, func() Obs { v, _, _ = c05Impl(sc); return OK(bool1(v)) })
						p2, perr := lease_set.ReadLeaseSet(b)
						okw := perr == nil && p2.Verify() == nil
						c.Check("signed_verifies_after_wire", okw && v, "NewLeaseSet", [][]byte{b}, "", fmt.Sprintf("parse err=%v", perr))
						if okw {
							okq, dq := verifiesAfterQueries(&p2)
							c.Check("signed_verifies_after_wire", okq, "NewLeaseSet", [][]byte{b}, "", dq)
						}
					}
				} else {
					c.Check("constructor_accepts_admissible", false, "NewLeaseSet", nil, "", fmt.Sprintf("NewLeaseSet failed: %v", nerr))
				}
			}
		}
		// ---- EncryptedLeaseSet (with and without offline signature) and OfflineSignature
		for _, offline := range []bool{false, true} {
			sigType := uint16([]int{7, 11}[r.Intn(2)]) // Ed25519ph (8) is offline-only: never an identity or blinded key
			transientType := uint16([]int{7, 8, 11}[r.Intn(3)])
			var off *offline_signature.OfflineSignature
			var signer interface{} = ed25519.PrivateKey(k.priv)
			flags := uint16(r.Intn(2)) << 1
			if offline {
				t := genEd(r)
				o, oerr := offline_signature.CreateOfflineSignature(1+uint32(r.U64()>>33), transientType, t.pub, ed25519.PrivateKey(k.priv), sigType)
				if oerr != nil {
					c.Check("constructor_accepts_admissible", false, "CreateOfflineSignature", nil, "", fmt.Sprintf("%v", oerr))
					continue
				}
				ok, verr := o.VerifySignature(k.pub)
				ob := o.Bytes()
				c.Check("signed_verifies_before_wire", ok && verr == nil, "CreateOfflineSignature", [][]byte{ob}, "", "VerifySignature failed on constructor output")
				sc := signedCase{E_VerifyOfflineSignature, "OfflineSignature.VerifySignature", nil, ob, [][]byte{u64b(uint64(sigType)), cp(k.pub)}}
				var v bool
				c.Case(sc.entry, append([][]byte{ob}, sc.extra...), func() Obs { v, _, _ = c05Impl(sc); return OK(bool1(v)) })
				o2, rem, perr := offline_signature.ReadOfflineSignature(ob, sigType)
				okw := perr == nil && len(rem) == 0
				if okw {
					ok2, e2 := o2.VerifySignature(k.pub)
					okw = ok2 && e2 == nil
				}
				c.Check("signed_verifies_after_wire", okw && v, "CreateOfflineSignature", [][]byte{ob}, "", "did not verify after the wire")
				off = &o
				flags |= 1
				signer = ed25519.PrivateKey(t.priv)
			}
			inner := r.Bytes(61 + r.Intn(300))
			blindedArg := cp(k.pub)
			e, nerr := encrypted_leaseset.NewEncryptedLeaseSet(sigType, blindedArg, uint32(r.U64()), 1+uint16(r.U64()%65535), flags, off, inner, signer)
			if nerr != nil {
				c.Check("constructor_accepts_admissible", false, "NewEncryptedLeaseSet", nil, "", fmt.Sprintf("%v", nerr))
				continue
			}
			b, berr := e.Bytes()
			okv := e.Verify() == nil && berr == nil
			c.Check("signed_verifies_before_wire", okv, "NewEncryptedLeaseSet", [][]byte{b}, "", "Verify() failed on constructor output")
			if okv {
				okq, dq := verifiesAfterQueries(e)
				c.Check("signed_verifies_before_wire", okq, "NewEncryptedLeaseSet", [][]byte{b}, "", dq)
			}
			if berr == nil {
				sc := signedCase{E_VerifyEncryptedLeaseSet, "EncryptedLeaseSet.Verify", []byte{5}, b, nil}
				var v bool
				c.Case(sc.entry, [][]byte{b}, func() Obs { v, _, _ = c05Impl(sc); return OK(bool1(v)) })
				p2, rem, perr := encrypted_leaseset.ReadEncryptedLeaseSet(b)
				okw := perr == nil && len(rem) == 0 && p2.Verify() == nil
				c.Check("signed_verifies_after_wire", okw && v, "NewEncryptedLeaseSet", [][]byte{b}, "", fmt.Sprintf("parse err=%v", perr))
				if okw {
					okq, dq := verifiesAfterQueries(p2)
					c.Check("signed_verifies_after_wire", okq, "NewEncryptedLeaseSet", [][]byte{b}, "", dq)
				}
			}
		}
		// ---- OfflineSignature for EVERY transient signing type the constructor accepts (the
		// transient key is opaque to the offline signature: any bytes of the type's length)
		for _, tt := range []int{0, 1, 2, 3, 4, 5, 6, 7, 8, 11} {
			dst := uint16([]int{7, 11}[r.Intn(2)])
			tkey := r.Bytes(specSigPubLen[tt])
			o, oerr := offline_signature.CreateOfflineSignature(1+uint32(r.U64()>>33), uint16(tt), tkey, ed25519.PrivateKey(k.priv), dst)
			if oerr != nil {
				continue // a transient type the constructor does not support
			}
			ok, verr := o.VerifySignature(k.pub)
			ob := o.Bytes()
			c.Check("signed_verifies_before_wire", ok && verr == nil, "CreateOfflineSignature(transient type)", [][]byte{ob, u64b(uint64(tt))}, "", fmt.Sprintf("transient type %d: VerifySignature=%v,%v on constructor output", tt, ok, verr))
			sc := signedCase{E_VerifyOfflineSignature, "OfflineSignature.VerifySignature", nil, ob, [][]byte{u64b(uint64(dst)), cp(k.pub)}}
			var v bool
			c.Case(sc.entry, append([][]byte{ob}, sc.extra...), func() Obs { v, _, _ = c05Impl(sc); return OK(bool1(v)) })
			o2, rem, perr := offline_signature.ReadOfflineSignature(ob, dst)
			okw := perr == nil && len(rem) == 0
			if okw {
				ok2, e2 := o2.VerifySignature(k.pub)
				okw = ok2 && e2 == nil
			}
			c.Check("signed_verifies_after_wire", okw && v, "CreateOfflineSignature(transient type)", [][]byte{ob, u64b(uint64(tt))}, "", fmt.Sprintf("transient type %d: did not verify after the wire (parse err=%v)", tt, perr))
			// NewOfflineSignature documents defensive copies of its slice arguments ("to prevent caller
			// mutation from corrupting the struct's internal state"): reusing the key buffer for the
			// next key must not reach into a value constructed earlier.  (Constructors that do not
			// document copies, e.g. NewEncryptedLeaseSet, are not held to this: C06 does not ask it.)
			scribble(tkey)
			ok3, verr3 := o.VerifySignature(k.pub)
			c.Check("signed_verifies_before_wire", ok3 && verr3 == nil && bytes.Equal(o.Bytes(), ob), "CreateOfflineSignature(transient type)", [][]byte{ob, u64b(uint64(tt))}, "",
				fmt.Sprintf("transient type %d: after the caller reused its key buffer the constructed value changed (verifies=%v)", tt, ok3))
		}
		// ---- LeaseSet2 (recorded finding D7: the constructor stores a placeholder signature)
		if i < c.N(8, 100) {
			id := genSignedIdent(r, k, 7, false)
			d, _, err := destination.ReadDestination(id.Encode())
			if err == nil {
				var opts data.Mapping
				if m, merr := data.GoMapToMapping(genOptionsMap(r)); merr == nil {
					opts = *m
				}
				keys := []lease_set2.EncryptionKey{{KeyType: 4, KeyLen: 32, KeyData: r.Bytes(32)}}
				var ls []lease.Lease2
				for j, nL2 := 0, 1+r.Intn(16); j < nL2; j++ {
					var l lease.Lease2
					copy(l[:], genLease2(r))
					ls = append(ls, l)
				}
				l2, nerr := lease_set2.NewLeaseSet2(d, uint32(r.U64()), uint16(r.U64()), 0, nil, opts, keys, ls, ed25519.PrivateKey(k.priv))
				if nerr == nil {
					b, _ := l2.Bytes()
					c.Check("signed_verifies_before_wire", l2.Verify() == nil, "NewLeaseSet2", [][]byte{b}, "ls2-placeholder-signature", "Verify() fails on the constructor's output: the signature is an all-zero placeholder")
				}
			}
		}
	}
}

// verifiesAfterQueries: every exported argument-free method of the value is asked (accessors, expiry
// queries, Validate, ...), then the signature check again: read-only questions in between must not
// turn a verifying value into one that does not verify or serialises differently
func verifiesAfterQueries(v interface{}) (ok bool, detail string) {
	before := reserialise(v)
	callAllMethods(v)
	after := reserialise(v)
	if !bytes.Equal(before, after) {
		return false, "the serialisation changed after the value's argument-free methods were called"
	}
	rv := reflect.ValueOf(v)
	if m := rv.MethodByName("Verify"); m.IsValid() && m.Type().NumIn() == 0 && m.Type().NumOut() == 1 {
		out := m.Call(nil)
		if !out[0].IsNil() {
			return false, fmt.Sprintf("Verify() fails after the value's argument-free methods were called: %v", out[0].Interface())
		}
		return true, ""
	}
	if m := rv.MethodByName("VerifySignature"); m.IsValid() && m.Type().NumIn() == 0 && m.Type().NumOut() == 2 {
		out := m.Call(nil)
		if !out[0].Bool() || !out[1].IsNil() {
			return false, "VerifySignature() fails after the value's argument-free methods were called"
		}
		return true, ""
	}
	return true, ""
}
