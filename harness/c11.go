package main

import (
	"bytes"
	"fmt"
	"sort"

	"github.com/go-i2p/common/data"
)

func init() { props["C11"] = runC11 }

func kvArgs(kvs []KV) [][]byte {
	var a [][]byte
	for _, kv := range kvs {
		a = append(a, kv.K, kv.V)
	}
	return a
}

func c11Map(c *Ctx, kvs []KV) {
	r := c.R
	gm := map[string]string{}
	for _, kv := range kvs {
		gm[string(kv.K)] = string(kv.V)
	}
	// de-duplicated view in a harness-chosen order (Go's map order is arbitrary)
	var uniq []KV
	for k, v := range gm {
		uniq = append(uniq, KV{[]byte(k), []byte(v)})
	}
	sort.Slice(uniq, func(i, j int) bool { return r.Bool() })
	total := 0
	inLimits := len(uniq) <= 1000
	for _, kv := range uniq {
		total += 4 + len(kv.K) + len(kv.V)
		if len(kv.K) > 255 || len(kv.V) > 255 {
			inLimits = false
		}
	}
	if total > 65535 {
		inLimits = false
	}
	args := kvArgs(uniq)
	var out []byte
	var gerr error
	c.Case(E_GoMapToMapping, args, func() Obs {
		m, err := data.GoMapToMapping(gm)
		gerr = err
		if err != nil {
			return ERR()
		}
		out = m.Data()
		c.Hold("GoMapToMapping -> Data()", args[:min(len(args), 8)], out)
		return OK(out)
	})
	if !inLimits {
		c.Check("over_limit_rejected", gerr != nil, "GoMapToMapping", args[:min(len(args), 8)], "", fmt.Sprintf("pairs=%d total=%d accepted", len(uniq), total))
		return
	}
	ok := gerr == nil
	detail := fmt.Sprintf("pairs=%d total=%d err=%v", len(uniq), total, gerr)
	if ok {
		// canonical: sorted by key, size field = bytes that follow, equals the independent encoding
		want := encodeMapping(sortKVs(uniq))
		ok = bytes.Equal(out, want) && len(out) >= 2 && int(out[0])<<8|int(out[1]) == len(out)-2
		if !ok {
			detail += " encoding differs from the canonical sorted encoding"
		}
	}
	if ok {
		// deterministic regardless of iteration order
		m2, err := data.GoMapToMapping(gm)
		ok = err == nil && bytes.Equal(m2.Data(), out)
	}
	if ok {
		// parses back without errors to exactly the same map, consuming everything
		m, rem, errs := data.ReadMapping(out)
		back, terr := m.ToGoMap()
		ok = len(errs) == 0 && len(rem) == 0 && terr == nil && len(back) == len(gm)
		for k, v := range gm {
			if bv, present := back[k]; !present || bv != v {
				ok = false
			}
		}
		if ok {
			ok = bytes.Equal(m.Data(), out)
		}
		if !ok {
			detail += fmt.Sprintf(" round trip: errs=%d rem=%d pairs back=%d", len(errs), len(rem), len(back))
		}
	}
	c.Check("map_roundtrip_canonical", ok, "GoMapToMapping", args[:min(len(args), 8)], "", detail)
}

func runC11(c *Ctx) {
	r := c.R
	byName := map[string]*Parser{}
	for i := range parsers {
		byName[parsers[i].Name] = &parsers[i]
	}
	// witness of the recorded finding D2
	slack := []byte{0x00, 0x0a, 0x01, 'a', '=', 0x01, 'b', ';', 0xde, 0xad, 0xbe, 0xef}
	c11Parse(c, byName["ReadMapping"], slack)
	// small maps: empty values, one-character keys, delimiters inside strings
	c11Map(c, nil)
	c11Map(c, []KV{{[]byte("a"), nil}})
	c11Map(c, []KV{{[]byte("z"), nil}, {[]byte("a"), []byte("b")}})
	c11Map(c, []KV{{[]byte("="), []byte(";")}, {[]byte(";"), []byte("=")}, {[]byte("a=b;"), []byte("c=d;")}})
	c11Map(c, []KV{{nil, nil}})
	c11Map(c, []KV{{nil, []byte("x")}, {[]byte("\x00"), nil}})
	// distinct keys that collide under common non-cryptographic hashes (FNV-1/FNV-1a 32-bit,
	// Java/djb-style multiplicative hashes, CRC-32, same length + same byte sum): key identity
	// must be decided on the full key
	for _, pair := range [][2]string{{"costarring", "liquid"}, {"declinate", "macallums"}, {"altarage", "zinke"}, {"altarages", "zinkes"},
		{"tunnel.84339", "opt128814"}, {"Aa", "BB"}, {"AaAa", "BBBB"}, {"AaBB", "BBAa"}, {"plumless", "buckeroo"}, {"ab", "ba"}, {"abc", "cba"}, {"host", "hots"},
		{"a\x00", "a"}, {"k", "k "}, {"K", "k"}} {
		c11Map(c, []KV{{[]byte(pair[0]), []byte("1")}, {[]byte(pair[1]), []byte("2")}})
		c11Map(c, []KV{{[]byte("first"), nil}, {[]byte(pair[1]), []byte("2")}, {[]byte(pair[0]), []byte("1")}, {[]byte("zz"), []byte("3")}})
	}
	for i := 0; i < c.N(600, 20000); i++ {
		var kvs []KV
		switch r.Intn(4) {
		case 0:
			kvs = genSmallKVs(r)
		case 1:
			kvs = genKVs(r, 40)
		default:
			kvs = genKVs(r, 6)
		}
		if r.Intn(20) == 0 {
			kvs = append(kvs, KV{r.Bytes(256 + r.Intn(3)), nil}) // string over the limit
		}
		if r.Intn(20) == 0 {
			kvs = append(kvs, KV{[]byte("k"), r.Bytes(256)})
		}
		c11Map(c, kvs)
	}
	// totals around the 65,535 limit: 127 pairs of 255+255 bytes (514 each = 65,278) plus one
	// pair tuned so that the total lands on 65,530..65,560, and variants where the size is
	// reached by many small pairs
	for total := 65528; total <= 65562; total++ {
		c11Map(c, boundaryMap(r, total))
	}
	for total := 65563; total <= 66060; total += 7 {
		c11Map(c, boundaryMap(r, total))
	}
	for _, total := range []int{65535, 65536, 65537, 65790, 66046, 66047, 66048, 70000} {
		var kvs []KV
		i := 0
		sum := 0
		for sum+514 <= total-8 {
			k := r.Bytes(255)
			k[0], k[1] = byte(i), byte(i>>8)
			kvs = append(kvs, KV{k, r.Bytes(255)})
			sum += 514
			i++
		}
		rest := total - sum - 4
		for rest > 510 {
			k := r.Bytes(255)
			k[0], k[1] = 0xfe, byte(i)
			kvs = append(kvs, KV{k, r.Bytes(200)})
			rest -= 459
			i++
		}
		kl := min(rest, 255)
		k := r.Bytes(kl)
		if kl > 0 {
			k[0] = 0xff
		}
		kvs = append(kvs, KV{k, r.Bytes(rest - kl)})
		c11Map(c, kvs)
	}
	// pair-count limit
	for _, n := range []int{999, 1000, 1001, 1100} {
		var kvs []KV
		for i := 0; i < n; i++ {
			kvs = append(kvs, KV{[]byte{byte('a' + i%26), byte('a' + (i/26)%26), byte('a' + i/676)}, r.Bytes(r.Intn(2))})
		}
		c11Map(c, kvs)
	}
	// arbitrary bytes and mutated encodings into the parser
	p := byName["ReadMapping"]
	forInputs(c, p, c.N(300, 8000), 4, c.N(300, 8000), func(input []byte, extra [][]byte, kind string) {
		c11Parse(c, p, input)
	})
}

// a mapping parsed without error re-serialises to the bytes it was read from
func c11Parse(c *Ctx, p *Parser, input []byte) {
	res := runParser(c, p, input, nil)
	m, rem, errs := data.ReadMapping(input)
	if len(errs) != 0 && !(len(errs) == 1 && !mappingFatal(errs)) {
		return
	}
	if len(rem) > len(input) {
		c.Check("parsed_mapping_reserialises", false, "ReadMapping", [][]byte{input}, "", "remainder longer than input")
		return
	}
	consumed := input[:len(input)-len(rem)]
	ok := bytes.Equal(m.Data(), consumed)
	class := ""
	if !ok && slackOnly(consumed, m.Data(), 0) {
		class = "mapping-slack"
	}
	_ = res
	c.Check("parsed_mapping_reserialises", ok, "ReadMapping", [][]byte{input}, class, fmt.Sprintf("consumed %d bytes, Data() is %d bytes", len(consumed), len(m.Data())))
}

// boundaryMap: 127 pairs of 255+255 bytes (514 bytes each on the wire = 65,278) plus one pair
// tuned so that the encoded payload is exactly total bytes
func boundaryMap(r *Rng, total int) []KV {
	var kvs []KV
	for i := 0; i < 127; i++ {
		k := r.Bytes(255)
		k[0], k[1] = byte(i), 1
		kvs = append(kvs, KV{k, r.Bytes(255)})
	}
	rest := total - 127*514 - 4
	for rest > 510 {
		k := r.Bytes(255)
		k[0], k[1] = 0xfe, byte(len(kvs))
		kvs = append(kvs, KV{k, r.Bytes(200)})
		rest -= 459
	}
	if rest < 0 {
		rest = 0
	}
	kl := 1 + r.Intn(min(rest, 250)+1)
	if r.Bool() {
		kl = 255
	}
	if kl > rest {
		kl = rest
	}
	if kl > 255 {
		kl = 255
	}
	k := r.Bytes(kl)
	if len(k) > 0 {
		k[0] = 0xff
	}
	v := rest - kl
	if v > 255 {
		v = 255
	}
	kvs = append(kvs, KV{k, r.Bytes(v)})
	return kvs
}
