package main

import (
	"bytes"
	"fmt"
	"net"
	"net/netip"
	"strconv"
	"strings"

	"github.com/go-i2p/common/data"
	"github.com/go-i2p/common/router_address"
)

func init() { props["C17"] = runC17 }

var hostPool = []string{
	"192.0.2.7", "0.0.0.0", "255.255.255.255", "256.1.1.1", "1.2.3", "1.2.3.4.5", "01.2.3.4", "1.2.3.04", "1.2.3.4 ", " 1.2.3.4", "1.2.3.4:80",
	"1..2.3", ".1.2.3", "1.2.3.", "127.0.0.1\n", "0x7f.0.0.1", "1.2.3.-4", "1.2.3.4/24", "999.1.1.1", "1.2.3.256",
	"::", "::1", "2001:db8::1", "2001:DB8::A", "fe80::1%eth0", "fe80::1%", "fe80::1%a.b.example.org", "[::1]", "::ffff:192.0.2.1", "::ffff:c000:201", "1:2:3:4:5:6:7:8", "1:2:3:4:5:6:7:8:9",
	"1:2:3:4:5:6:7", "1::2::3", ":1::", "1:::2", "12345::", "g::1", "1:2:3:4:5:6:1.2.3.4", "1:2:3:4:5:6:7:1.2.3.4", "::1.2.3.4", "1:2:3:4:5:6:7::", "::2:3:4:5:6:7:8", "1:2:3:4::5:6:7:8",
	"2001:0db8:1111:2222:3333:4444:192.0.2.10", "ffff:ffff:ffff:ffff:ffff:ffff:255.255.255.255", "0000:0000:0000:0000:0000:0000:0000:0001",
	"ffff:ffff:ffff:ffff:ffff:ffff:ffff:ffff", "0000:0000:0000:0000:0000:ffff:192.168.100.200", "ffff:ffff:ffff:ffff:ffff:ffff:255.255.255.2555", "255.255.255.255", "0255.255.255.255",
	"example.org", "localhost", "i2p-projekt.i2p", "", "a", "host", "1.2.3.4.example.org", "٣.٣.٣.٣", "1.2.3.4\x00",
}
var portPool = []string{
	"1", "65535", "0", "65536", "80", "0080", "+80", "-80", " 80", "80 ", "8_0", "0x50", "1e3", "", "+", "-", "٣", "99999999999999999999", "12345", "-0", "+0", "65535.0", "６",
	"4294967297", "18446744073709551617", "00000000000000000000000000001",
}

func raFromOptions(kvs []KV) []byte {
	return RouterAddrV{Cost: 5, Style: []byte("NTCP2"), Opts: kvs}.Encode()
}

// independent reference for host/port acceptance
func refHost(s string) ([]byte, bool) {
	a, err := netip.ParseAddr(s)
	if err != nil || a.Zone() != "" {
		return nil, false
	}
	b := a.As16()
	return b[:], true
}
func refPort(s string) (string, bool) {
	if s == "" {
		return "", false
	}
	i := 0
	if s[0] == '+' || s[0] == '-' {
		i = 1
	}
	if i == len(s) {
		return "", false
	}
	for _, ch := range []byte(s[i:]) {
		if ch < '0' || ch > '9' {
			return "", false
		}
	}
	d := strings.TrimLeft(s[i:], "0")
	if len(d) > 5 || d == "" || s[0] == '-' {
		return "", false
	}
	v, _ := strconv.Atoi(d)
	if v < 1 || v > 65535 {
		return "", false
	}
	return strconv.Itoa(v), true
}

// wireOrder: keep the pairs in the order given (a wire mapping need not be sorted) instead of sorting them
func c17One(c *Ctx, kvs []KV, viaConstructor bool, wireOrder ...bool) {
	w := raFromOptions(sortKVs(kvs))
	if len(wireOrder) > 0 && wireOrder[0] && !viaConstructor {
		w = raFromOptions(kvs)
	}
	var ra router_address.RouterAddress
	var perr error
	if viaConstructor {
		m := map[string]string{}
		for _, kv := range kvs {
			m[string(kv.K)] = string(kv.V)
		}
		p, err := router_address.NewRouterAddress(5, zeroTime, "NTCP2", m)
		if err != nil || p == nil {
			return
		}
		ra = *p
		w = ra.Bytes()
	} else {
		ra, _, perr = router_address.ReadRouterAddress(w)
		if perr != nil {
			return
		}
	}
	opt := func(key string) (string, bool) {
		// first pair whose key equals exactly
		for _, kv := range sortKVs(kvs) {
			if string(kv.K) == key {
				return string(kv.V), true
			}
		}
		return "", false
	}
	var hostOK, portOK, hvh, hvp bool
	var host16 []byte
	var port, ipver string
	c.Case(E_RouterAddrAccessors, [][]byte{w}, func() Obs {
		var outs [][]byte
		h, herr := ra.Host()
		hostOK = herr == nil
		if hostOK {
			host16 = h.(*net.IPAddr).IP.To16()
			outs = append(outs, bool1(true), host16)
		} else {
			outs = append(outs, bool1(false), nil)
		}
		p, e := ra.Port()
		portOK, port = e == nil, p
		if portOK {
			outs = append(outs, bool1(true), []byte(p))
		} else {
			outs = append(outs, bool1(false), nil)
		}
		hvh, hvp, ipver = ra.HasValidHost(), ra.HasValidPort(), ra.IPVersion()
		outs = append(outs, bool1(hvh), bool1(hvp), []byte(ipver))
		sk, e1 := ra.StaticKey()
		if e1 == nil {
			outs = append(outs, bool1(true), sk[:])
		} else {
			outs = append(outs, bool1(false), nil)
		}
		iv, e2 := ra.InitializationVector()
		if e2 == nil {
			outs = append(outs, bool1(true), iv[:])
		} else {
			outs = append(outs, bool1(false), nil)
		}
		return OK(outs...)
	})
	args := [][]byte{w}
	hv, hPresent := opt("host")
	want16, wantHost := refHost(hv)
	wantHost = wantHost && hPresent && hv != ""
	c.Check("host_iff_ip_literal", hostOK == wantHost && (!hostOK || bytes.Equal(host16, want16)), "RouterAddress.Host", args, "",
		fmt.Sprintf("host option %q: Host() ok=%v, expected %v", hv, hostOK, wantHost))
	c.Check("valid_host_helper_agrees", hvh == hostOK, "RouterAddress.HasValidHost", args, "", fmt.Sprintf("host %q: Host ok=%v HasValidHost=%v", hv, hostOK, hvh))
	pv, pPresent := opt("port")
	wantPort, wantOK := refPort(pv)
	wantOK = wantOK && pPresent
	c.Check("port_iff_decimal_in_range", portOK == wantOK && (!portOK || port == wantPort), "RouterAddress.Port", args, "",
		fmt.Sprintf("port option %q: Port()=%q ok=%v, expected %q ok=%v", pv, port, portOK, wantPort, wantOK))
	c.Check("valid_port_helper_agrees", hvp == portOK, "RouterAddress.HasValidPort", args, "", fmt.Sprintf("port %q: Port ok=%v HasValidPort=%v", pv, portOK, hvp))
	if hostOK {
		fam := "6"
		if net.IP(host16).To4() != nil {
			fam = "4"
		}
		c.Check("ip_version_matches_family", ipver == fam, "RouterAddress.IPVersion", args, "", fmt.Sprintf("host %q family %s, IPVersion %q", hv, fam, ipver))
	}
	// option lookup returns the value stored under exactly the requested key
	for _, kv := range kvs {
		if len(kv.K) > 255 {
			continue
		}
		ks, _ := data.ToI2PString(string(kv.K))
		got := ra.GetOption(ks)
		want, _ := opt(string(kv.K))
		gd, gerr := got.Data()
		c.Check("option_lookup_exact_key", got != nil && gerr == nil && gd == want, "RouterAddress.GetOption", args, "", fmt.Sprintf("key %q: got %q want %q", kv.K, gd, want))
	}
	for _, k := range []string{"hos", "hostx", "Host", "por", "ports", "s ", "ss", "ii", ""} {
		if _, present := opt(k); present {
			continue
		}
		ks, _ := data.ToI2PString(k)
		c.Check("option_lookup_exact_key", ra.GetOption(ks) == nil, "RouterAddress.GetOption", args, "", fmt.Sprintf("absent key %q found", k))
	}
	sv, sPresent := opt("s")
	_, serr := ra.StaticKey()
	c.Check("static_key_iff_32_bytes", (serr == nil) == (sPresent && len(sv) == 32), "RouterAddress.StaticKey", args, "", fmt.Sprintf("len %d present %v err %v", len(sv), sPresent, serr))
	iv, iPresent := opt("i")
	_, ierr := ra.InitializationVector()
	c.Check("iv_iff_16_bytes", (ierr == nil) == (iPresent && len(iv) == 16), "RouterAddress.InitializationVector", args, "", fmt.Sprintf("len %d present %v err %v", len(iv), iPresent, ierr))
}

func runC17(c *Ctx) {
	r := c.R
	for _, h := range hostPool {
		for _, via := range []bool{false, true} {
			c17One(c, []KV{{[]byte("host"), []byte(h)}, {[]byte("port"), []byte("12345")}}, via)
		}
		// unsorted wire order, with and without a pair in front
		c17One(c, []KV{{[]byte("port"), []byte("12345")}, {[]byte("host"), []byte(h)}}, false, true)
		c17One(c, []KV{{[]byte("zz"), []byte("1")}, {[]byte("port"), []byte("12345")}, {[]byte("caps"), []byte("BC")}, {[]byte("host"), []byte(h)}}, false, true)
	}
	for _, p := range portPool {
		for _, via := range []bool{false, true} {
			c17One(c, []KV{{[]byte("host"), []byte("192.0.2.7")}, {[]byte("port"), []byte(p)}}, via)
		}
		c17One(c, []KV{{[]byte("s"), []byte("x")}, {[]byte("port"), []byte(p)}, {[]byte("host"), []byte("192.0.2.7")}}, false, true)
	}
	decoys := []string{"hos", "hostx", "Host", "por", "ports", "port ", "caps", "s", "i", "v", "ss", "ih0"}
	for i := 0; i < c.N(600, 30000); i++ {
		var kvs []KV
		seen := map[string]bool{}
		add := func(k string, v []byte) {
			if !seen[k] {
				seen[k] = true
				kvs = append(kvs, KV{[]byte(k), v})
			}
		}
		if r.Intn(5) != 0 {
			h := hostPool[r.Intn(len(hostPool))]
			if r.Intn(4) == 0 { // random literal shapes
				switch r.Intn(3) {
				case 0:
					h = fmt.Sprintf("%d.%d.%d.%d", r.Intn(300), r.Intn(256), r.Intn(256), r.Intn(256))
				case 1:
					parts := []string{}
					for k, nn := 0, 2+r.Intn(8); k < nn; k++ {
						parts = append(parts, fmt.Sprintf("%x", r.Intn(1<<uint(4+r.Intn(16)))))
					}
					h = strings.Join(parts, ":")
					if r.Bool() {
						j := r.Intn(len(h) + 1)
						h = h[:j] + "::" + h[j:]
					}
				default:
					h = hostPool[r.Intn(len(hostPool))] + string([]byte{byte(r.Intn(128))})
				}
			}
			add("host", []byte(h))
		}
		if r.Intn(5) != 0 {
			p := portPool[r.Intn(len(portPool))]
			if r.Intn(3) == 0 {
				p = strconv.Itoa(r.Intn(70000))
			}
			add("port", []byte(p))
		}
		if r.Intn(3) == 0 {
			add("caps", []byte([]string{"", "6", "46", "4", "B6", "BC"}[r.Intn(6)]))
		}
		if r.Intn(3) == 0 {
			add("s", fixedValue(r, []int{0, 31, 32, 33, 44}[r.Intn(5)]))
		}
		if r.Intn(3) == 0 {
			add("i", fixedValue(r, []int{0, 15, 16, 17, 24}[r.Intn(5)]))
		}
		for k, nn := 0, r.Intn(3); k < nn; k++ {
			add(decoys[r.Intn(len(decoys))], r.Bytes(r.Intn(6)))
		}
		if r.Bool() { // random wire order
			for j := len(kvs) - 1; j > 0; j-- {
				k := r.Intn(j + 1)
				kvs[j], kvs[k] = kvs[k], kvs[j]
			}
			c17One(c, kvs, r.Intn(3) == 0, true)
		} else {
			c17One(c, kvs, r.Intn(3) == 0)
		}
	}
}

// fixedValue: n bytes that are random, all zero, all 0xFF, one repeated byte or ASCII: the accessors
// of fixed-size fields look at the length only
func fixedValue(r *Rng, n int) []byte {
	b := r.Bytes(n)
	switch r.Intn(6) {
	case 0:
		for i := range b {
			b[i] = 0
		}
	case 1:
		for i := range b {
			b[i] = 0xff
		}
	case 2:
		x := byte(r.U64())
		for i := range b {
			b[i] = x
		}
	case 3:
		for i := range b {
			b[i] = 'A' + byte(r.Intn(26))
		}
	}
	return b
}
