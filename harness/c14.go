package main

import (
	cryptodsa "github.com/go-i2p/crypto/dsa"
	"bytes"
	"crypto/ed25519"
	"fmt"
	"time"

	"github.com/go-i2p/common/certificate"
	"github.com/go-i2p/common/data"
	"github.com/go-i2p/common/destination"
	"github.com/go-i2p/common/encrypted_leaseset"
	"github.com/go-i2p/common/key_certificate"
	"github.com/go-i2p/common/keys_and_cert"
	"github.com/go-i2p/common/lease"
	"github.com/go-i2p/common/lease_set"
	"github.com/go-i2p/common/lease_set2"
	"github.com/go-i2p/common/offline_signature"
	"github.com/go-i2p/common/router_address"
	"github.com/go-i2p/common/router_identity"
	"github.com/go-i2p/common/router_info"
	"github.com/go-i2p/common/signature"
	cryptoed "github.com/go-i2p/crypto/ed25519"
	"github.com/go-i2p/crypto/elg"
)

func init() { props["C14"] = runC14 }

// outcome of one constructor attempt
type built struct {
	ctorOK  bool
	validOK bool // Validate() on the constructed value (meaningful only if ctorOK)
	bytes   []byte
	bytesOK bool
	reparse func(b []byte) (ok bool, rem []byte, again []byte) // parse + re-serialise
}

// the C14 chain for a value that was constructed successfully
func c14Chain(c *Ctx, name string, arg []byte, b built, classCtorNotValid string, classRT ...string) {
	rtClass := ""
	if len(classRT) > 0 {
		rtClass = classRT[0]
	}
	if !b.ctorOK {
		return
	}
	c.Check("constructed_value_validates", b.validOK, name, [][]byte{arg}, classCtorNotValid, "constructor succeeded, Validate() fails")
	if !b.validOK {
		return
	}
	c.Check("valid_value_serialises", b.bytesOK, name, [][]byte{arg}, "", "Validate() ok, serialisation fails")
	if !b.bytesOK || b.reparse == nil {
		return
	}
	ok, rem, again := b.reparse(b.bytes)
	c.Check("valid_value_round_trips", ok && len(rem) == 0 && bytes.Equal(again, b.bytes), name, [][]byte{b.bytes}, rtClass,
		fmt.Sprintf("parse ok=%v remainder=%d reserialised equal=%v", ok, len(rem), bytes.Equal(again, b.bytes)))
}

// a documented structural defect must be rejected by the constructor AND by the validator
// (the validator is applied to the same value assembled without the constructor where the
// API allows it: here, to the value parsed from the defective wire form or built directly)
func c14Defect(c *Ctx, name, defect string, ctorRejected bool, validatorRejected *bool, class string) {
	c.Check("defect_rejected_by_constructor", ctorRejected, name, [][]byte{[]byte(defect)}, class, "constructor accepted: "+defect)
	if validatorRejected != nil {
		c.Check("defect_rejected_by_validator", *validatorRejected, name, [][]byte{[]byte(defect)}, "", "validator accepted: "+defect)
	}
}

func bp(b bool) *bool { return &b }

func runC14(c *Ctx) {
	r := c.R
	c14SourceValidators(c)
	n := c.N(60, 2000)
	// mappings around the 65,535-byte limit: accepted ones must validate and round-trip,
	// over-limit ones must be rejected (not wrapped)
	for total := 65500; total <= 66070; total += 1 + r.Intn(5) {
		kvs := boundaryMap(r, total)
		gm := map[string]string{}
		real := 0
		for _, kv := range kvs {
			gm[string(kv.K)] = string(kv.V)
		}
		for k, v := range gm {
			real += 4 + len(k) + len(v)
		}
		mp, err := data.GoMapToMapping(gm)
		b := built{ctorOK: err == nil, reparse: func(b []byte) (bool, []byte, []byte) {
			x, rem, errs := data.ReadMapping(b)
			return len(errs) == 0, rem, x.Data()
		}}
		if err == nil {
			b.validOK = mp.Validate() == nil
			b.bytes, b.bytesOK = mp.Data(), true
		}
		c14Chain(c, "GoMapToMapping(limit)", i64(int64(real)), b, "")
		if real > 65535 {
			c14Defect(c, "GoMapToMapping", fmt.Sprintf("mapping of %d bytes (limit 65535)", real), err != nil, nil, "")
		} else {
			c.Check("valid_arguments_accepted", err == nil, "GoMapToMapping(limit)", [][]byte{i64(int64(real))}, "", fmt.Sprintf("%d-byte mapping rejected", real))
		}
	}
	// ---------- KeysAndCert over EVERY (signing, crypto) pair known to the size tables, not
	// only the pairs the wire reader supports: a value the constructor returns and Validate()
	// accepts must parse back (finding D22 for the pairs the reader cannot construct)
	for _, s := range []int{0, 1, 2, 3, 4, 5, 6, 7, 8, 11} {
		for cr := 0; cr <= 7; cr++ {
			for variant := 0; variant < 2; variant++ {
				kc, err := key_certificate.NewKeyCertificateWithTypes(s, cr)
				if variant == 1 {
					// the same types with excess key data / surplus payload in the key certificate
					extra := r.Bytes(1 + r.Intn(9))
					kc, _, err = key_certificate.NewKeyCertificate(cat([]byte{5}, u16(4+len(extra)), u16(s), u16(cr), extra))
				}
				if err != nil || kc == nil {
					continue
				}
				cs, ss := kc.CryptoSize(), kc.SigningPublicKeySize()
				if 384-cs-ss < 0 {
					continue
				}
				pubB, padB, spkB := r.Bytes(cs), r.Bytes(384-cs-ss), r.Bytes(ss)
				var k *keys_and_cert.KeysAndCert
				var kerr error
				c.Case(E_NewKeysAndCertFromParts, [][]byte{kc.Bytes(), pubB, padB, spkB}, func() Obs {
					k, kerr = keys_and_cert.NewKeysAndCert(kc, fakeKey{pubB}, padB, fakeSPKT{spkB})
					if kerr != nil {
						return ERR()
					}
					bs, be := k.Bytes()
					if be != nil {
						bs = nil
					}
					return OK(bool1(k.Validate() == nil), bs)
				})
				b := built{ctorOK: kerr == nil, reparse: func(b []byte) (bool, []byte, []byte) {
					var p Parsed
					for i := range parsers {
						if parsers[i].Name == "ReadKeysAndCert" {
							p = runParser(c, &parsers[i], b, nil)
						}
					}
					if !p.OK {
						return false, nil, nil
					}
					again, _ := p.Val.(*keys_and_cert.KeysAndCert).Bytes()
					return true, p.Rem, again
				}}
				if kerr == nil {
					b.validOK = k.Validate() == nil
					b.bytes, err = k.Bytes()
					b.bytesOK = err == nil
				}
				supported := false
				for _, x := range libSigSupported {
					for _, y := range libCryptoSupported {
						if x == s && y == cr {
							supported = true
						}
					}
				}
				class := ""
				if !supported {
					class = "kac-unparseable-types"
				}
				c14Chain(c, "NewKeysAndCert(all known types)", cat(u16(s), u16(cr), []byte{byte(variant)}), b, "", class)
			}
		}
	}
	for i := 0; i < n; i++ {
		// ---------- KeysAndCert / Destination / RouterIdentity
		s := libSigSupported[r.Intn(len(libSigSupported))]
		cr := libCryptoSupported[r.Intn(len(libCryptoSupported))]
		id := genIdentTypes(r, s, cr, false)
		parsed, _, perr := keys_and_cert.ReadKeysAndCert(id.Encode())
		if perr == nil {
			kc := parsed.KeyCertificate
			reparseKAC := func(b []byte) (bool, []byte, []byte) {
				k, rem, err := keys_and_cert.ReadKeysAndCert(b)
				if err != nil {
					return false, nil, nil
				}
				again, _ := k.Bytes()
				return true, rem, again
			}
			k, err := keys_and_cert.NewKeysAndCert(kc, parsed.ReceivingPublic, parsed.Padding, parsed.SigningPublic)
			for v := 0; v < 4; v++ {
				pubB, padB, spkB := parsed.ReceivingPublic.Bytes(), parsed.Padding, parsed.SigningPublic.Bytes()
				switch v {
				case 1:
					pubB = append(cp(pubB), 0)
				case 2:
					padB = append(cp(padB), 0)
				case 3:
					spkB = spkB[:len(spkB)-1]
				}
				c.Case(E_NewKeysAndCertFromParts, [][]byte{kc.Bytes(), pubB, padB, spkB}, func() Obs {
					x, e := keys_and_cert.NewKeysAndCert(kc, fakeKey{pubB}, padB, fakeSPKT{spkB})
					if e != nil {
						return ERR()
					}
					bs, be := x.Bytes()
					if be != nil {
						bs = nil
					}
					return OK(bool1(x.Validate() == nil), bs)
				})
			}
			b := built{ctorOK: err == nil, reparse: reparseKAC}
			if err == nil {
				b.validOK = k.Validate() == nil
				b.bytes, err = k.Bytes()
				b.bytesOK = err == nil
			}
			c14Chain(c, "NewKeysAndCert", id.Encode(), b, "")
			c.Check("valid_arguments_accepted", b.ctorOK, "NewKeysAndCert", [][]byte{id.Encode()}, "", "valid tuple rejected")
			// defects
			_, e1 := keys_and_cert.NewKeysAndCert(kc, newFakeKey(parsed.ReceivingPublic.Len()+1), parsed.Padding, parsed.SigningPublic)
			v1 := (&keys_and_cert.KeysAndCert{KeyCertificate: kc, ReceivingPublic: newFakeKey(parsed.ReceivingPublic.Len() + 1), Padding: parsed.Padding, SigningPublic: parsed.SigningPublic}).Validate() != nil
			c14Defect(c, "NewKeysAndCert", "crypto key length not matching its type", e1 != nil, &v1, "")
			_, e2 := keys_and_cert.NewKeysAndCert(kc, parsed.ReceivingPublic, parsed.Padding, newFakeSPK(parsed.SigningPublic.Len()+1))
			v2 := (&keys_and_cert.KeysAndCert{KeyCertificate: kc, ReceivingPublic: parsed.ReceivingPublic, Padding: parsed.Padding, SigningPublic: newFakeSPK(parsed.SigningPublic.Len() + 1)}).Validate() != nil
			c14Defect(c, "NewKeysAndCert", "signing key length not matching its type", e2 != nil, &v2, "")
			_, e3 := keys_and_cert.NewKeysAndCert(kc, parsed.ReceivingPublic, append(cp(parsed.Padding), 0), parsed.SigningPublic)
			c14Defect(c, "NewKeysAndCert", "padding length not 384 - key sizes", e3 != nil, nil, "")
			_, e4 := keys_and_cert.NewKeysAndCert(nil, parsed.ReceivingPublic, parsed.Padding, parsed.SigningPublic)
			v4 := (&keys_and_cert.KeysAndCert{ReceivingPublic: parsed.ReceivingPublic, SigningPublic: parsed.SigningPublic}).Validate() != nil
			c14Defect(c, "NewKeysAndCert", "nil key certificate", e4 != nil, &v4, "")
			if i < 3 {
				kn, e5 := keys_and_cert.NewKeysAndCert(kc, nil, parsed.Padding, nil)
				vb := built{ctorOK: e5 == nil}
				if e5 == nil {
					vb.validOK = kn.Validate() == nil
				}
				c14Chain(c, "NewKeysAndCert(nil keys)", nil, vb, "kac-nil-keys")
			}
			// Destination
			if d, derr := destination.NewDestination(parsed); derr == nil {
				db := built{ctorOK: true, validOK: d.Validate() == nil, reparse: func(b []byte) (bool, []byte, []byte) {
					dd, rem, err := destination.ReadDestination(b)
					if err != nil {
						return false, nil, nil
					}
					again, _ := dd.Bytes()
					return true, rem, again
				}}
				var e error
				db.bytes, e = d.Bytes()
				db.bytesOK = e == nil
				c14Chain(c, "NewDestination", id.Encode(), db, "")
			}
			// RouterIdentity
			if ri, rerr := router_identity.NewRouterIdentity(parsed.ReceivingPublic, parsed.SigningPublic, parsed.Certificate(), parsed.Padding); rerr == nil {
				rb := built{ctorOK: true, validOK: ri.Validate() == nil, reparse: func(b []byte) (bool, []byte, []byte) {
					x, rem, err := router_identity.ReadRouterIdentity(b)
					if err != nil {
						return false, nil, nil
					}
					again, _ := x.Bytes()
					return true, rem, again
				}}
				var e error
				rb.bytes, e = ri.Bytes()
				rb.bytesOK = e == nil
				c14Chain(c, "NewRouterIdentity", id.Encode(), rb, "")
			}
		}
		// ---------- Signature
		{
			t := []int{0, 1, 2, 3, 4, 5, 6, 7, 8, 11}[r.Intn(10)]
			raw := r.Bytes(specSigLen[t])
			sg, err := signature.NewSignatureFromBytes(raw, t)
			c.Case(E_NewSignatureFromBytes, [][]byte{raw, i64(int64(t))}, func() Obs {
				x, e := signature.NewSignatureFromBytes(raw, t)
				if e != nil {
					return ERR()
				}
				return OK(x.Bytes())
			})
			b := built{ctorOK: err == nil, reparse: func(b []byte) (bool, []byte, []byte) {
				x, rem, e := signature.ReadSignature(b, t)
				return e == nil, rem, x.Bytes()
			}}
			if err == nil {
				b.validOK = sg.Validate() == nil
				b.bytes, b.bytesOK = sg.Bytes(), true
			}
			c14Chain(c, "NewSignatureFromBytes", raw, b, "")
			c.Check("valid_arguments_accepted", b.ctorOK, "NewSignatureFromBytes", [][]byte{raw}, "", "valid tuple rejected")
			_, e1 := signature.NewSignatureFromBytes(append(cp(raw), 0), t)
			c14Defect(c, "NewSignatureFromBytes", "signature length not matching its type", e1 != nil, nil, "")
			_, e2 := signature.NewSignatureFromBytes(raw, []int{9, 10, 12, 65535, -1, 70000}[r.Intn(6)])
			c14Defect(c, "NewSignatureFromBytes", "unknown signature type", e2 != nil, nil, "")
		}
		// ---------- OfflineSignature (structure only: expiry is time dependent)
		{
			dt := []int{7, 11, 0, 1, 2, 8}[r.Intn(6)]
			o := genOffline(r, dt)
			if i%7 == 0 {
				o.Expires = 0
			}
			os, err := offline_signature.NewOfflineSignature(o.Expires, uint16(o.SigType), o.Key, o.Sig, uint16(dt))
			for _, variant := range [][][]byte{{o.Key, o.Sig}, {append(cp(o.Key), 1), o.Sig}, {o.Key, o.Sig[:len(o.Sig)-1]}} {
				vk, vs := variant[0], variant[1]
				c.Case(E_NewOfflineSignature, [][]byte{u64b(uint64(o.Expires)), u64b(uint64(o.SigType)), vk, vs, u64b(uint64(dt))}, func() Obs {
					x, e := offline_signature.NewOfflineSignature(o.Expires, uint16(o.SigType), vk, vs, uint16(dt))
					if e != nil {
						return ERR()
					}
					return OK(x.Bytes(), bool1(x.ValidateStructure() == nil))
				})
			}
			b := built{ctorOK: err == nil, reparse: func(b []byte) (bool, []byte, []byte) {
				x, rem, e := offline_signature.ReadOfflineSignature(b, uint16(dt))
				return e == nil, rem, x.Bytes()
			}}
			if err == nil {
				b.validOK = os.ValidateStructure() == nil
				b.bytes, b.bytesOK = os.Bytes(), true
			}
			class := ""
			if o.Expires == 0 {
				class = "offline-zero-expires"
			}
			c14Chain(c, "NewOfflineSignature", o.Encode(), b, class)
			_, e1 := offline_signature.NewOfflineSignature(o.Expires, uint16(o.SigType), append(cp(o.Key), 1), o.Sig, uint16(dt))
			c14Defect(c, "NewOfflineSignature", "transient key length not matching its type", e1 != nil, nil, "")
			_, e2 := offline_signature.NewOfflineSignature(o.Expires, uint16(o.SigType), o.Key, o.Sig[:len(o.Sig)-1], uint16(dt))
			c14Defect(c, "NewOfflineSignature", "signature length not matching the destination type", e2 != nil, nil, "")
			_, e3 := offline_signature.NewOfflineSignature(o.Expires, 9, o.Key, o.Sig, uint16(dt))
			c14Defect(c, "NewOfflineSignature", "unknown transient key type", e3 != nil, nil, "")
		}
		// ---------- Certificate
		{
			t := uint8(r.Intn(7))
			payloads := map[uint8][]int{0: {0, 1}, 1: {0, 8, 30}, 2: {0, 1}, 3: {40, 72, 41, 0}, 4: {0, 5}, 5: {4, 8, 3, 0}, 6: {0}}
			pl := payloads[t][r.Intn(len(payloads[t]))]
			payload := r.Bytes(pl)
			ce, err := certificate.NewCertificateWithType(t, payload)
			c.Case(E_NewCertificateWithType, [][]byte{i64(int64(t)), payload}, func() Obs {
				x, e := certificate.NewCertificateWithType(t, payload)
				if e != nil {
					return ERR()
				}
				return OK(x.Bytes())
			})
			b := built{ctorOK: err == nil, reparse: func(b []byte) (bool, []byte, []byte) {
				x, rem, e := certificate.ReadCertificate(b)
				if e != nil {
					return false, nil, nil
				}
				return true, rem, x.Bytes()
			}}
			if err == nil {
				b.validOK = ce.IsValid()
				b.bytes, b.bytesOK = ce.Bytes(), true
				// the serialisation is exactly type || length || payload
				c.Check("valid_value_round_trips", bytes.Equal(b.bytes, cat([]byte{t}, u16(pl), payload)), "NewCertificateWithType", [][]byte{payload}, "", "Bytes() is not type||len||payload")
			}
			c14Chain(c, "NewCertificateWithType", payload, b, "")
			wantOK := t <= 5 && !((t == 0 || t == 2) && pl > 0) && !(t == 3 && pl != 40 && pl != 72)
			c.Check("certificate_constructor_rules", b.ctorOK == wantOK, "NewCertificateWithType", [][]byte{{t}, payload}, "", fmt.Sprintf("type %d payload %d: accepted=%v expected=%v", t, pl, b.ctorOK, wantOK))
		}
		// ---------- Mapping
		{
			m := genOptionsMap(r)
			mp, err := data.GoMapToMapping(m)
			b := built{ctorOK: err == nil, reparse: func(b []byte) (bool, []byte, []byte) {
				x, rem, errs := data.ReadMapping(b)
				return len(errs) == 0, rem, x.Data()
			}}
			if err == nil {
				b.validOK = mp.Validate() == nil
				b.bytes, b.bytesOK = mp.Data(), true
			}
			c14Chain(c, "GoMapToMapping", nil, b, "")
		}
		// ---------- RouterAddress / RouterInfo
		k := genEd(r)
		priv := cryptoed.Ed25519PrivateKey(k.priv)
		{
			a, err := router_address.NewRouterAddress(uint8(r.Intn(256)), time.Time{}, []string{"NTCP2", "SSU2", "x"}[r.Intn(3)], genOptionsMap(r))
			b := built{ctorOK: err == nil, reparse: func(b []byte) (bool, []byte, []byte) {
				x, rem, e := router_address.ReadRouterAddress(b)
				return e == nil, rem, x.Bytes()
			}}
			if err == nil {
				b.validOK = a.Validate() == nil
				b.bytes = a.Bytes()
				b.bytesOK = b.bytes != nil
			}
			c14Chain(c, "NewRouterAddress", nil, b, "")
			_, e1 := router_address.NewRouterAddress(1, time.Time{}, "", nil)
			c14Defect(c, "NewRouterAddress", "empty transport style", e1 != nil, nil, "")
			rid := genSignedIdent(r, k, 7, true)
			if ri, _, rerr := router_identity.ReadRouterIdentity(rid.Encode()); rerr == nil {
				na := genCount(r, 4)
				var addrs []*router_address.RouterAddress
				for j := 0; j < na; j++ {
					if x, e := router_address.NewRouterAddress(5, time.Time{}, "NTCP2", genOptionsMap(r)); e == nil {
						addrs = append(addrs, x)
					}
				}
				pub := time.UnixMilli(int64(1 + r.U64()>>22))
				if i%9 == 0 {
					pub = time.UnixMilli(0)
				}
				info, nerr := router_info.NewRouterInfo(ri, pub, addrs, genOptionsMap(r), &priv, 7)
				ib := built{ctorOK: nerr == nil, reparse: func(b []byte) (bool, []byte, []byte) {
					x, rem, e := router_info.ReadRouterInfo(b)
					if e != nil {
						return false, nil, nil
					}
					again, _ := x.Bytes()
					return true, rem, again
				}}
				class := ""
				if nerr == nil {
					ib.validOK = info.Validate() == nil
					var e error
					ib.bytes, e = info.Bytes()
					ib.bytesOK = e == nil
					_ = class
				}
				c14Chain(c, "NewRouterInfo", nil, ib, class)
			}
		}
		// ---------- LeaseSet
		{
			did := genSignedIdent(r, k, 7, false)
			if d, _, derr := destination.ReadDestination(did.Encode()); derr == nil {
				encB := r.Bytes(256)
				encB[0] &= 0x7f
				encB[255] |= 2
				var ek elg.ElgPublicKey
				copy(ek[:], encB)
				spk, _ := d.SigningPublicKey()
				mk := func(n int) []lease.Lease {
					var ls []lease.Lease
					for j := 0; j < n; j++ {
						var l lease.Lease
						copy(l[:], genLease(r))
						ls = append(ls, l)
					}
					return ls
				}
				ls, nerr := lease_set.NewLeaseSet(d, ek, spk, mk(genCount(r, 16)), &priv)
				b := built{ctorOK: nerr == nil, reparse: func(b []byte) (bool, []byte, []byte) {
					x, e := lease_set.ReadLeaseSet(b)
					if e != nil {
						return false, nil, nil
					}
					again, _ := x.Bytes()
					return true, nil, again
				}}
				if nerr == nil {
					b.validOK = ls.Validate() == nil
					var e error
					b.bytes, e = ls.Bytes()
					b.bytesOK = e == nil
				}
				c14Chain(c, "NewLeaseSet", nil, b, "")
				c.Check("valid_arguments_accepted", b.ctorOK, "NewLeaseSet", nil, "", fmt.Sprintf("valid tuple rejected: %v", nerr))
				if i < 6 {
					// the legacy identity: NULL certificate (ElGamal + DSA-SHA1; the default key and
					// signature sizes apply) and DSA declared in a KEY certificate
					dk := genDSA(r)
					lid := genIdentTypes(r, 0, 0, i%2 == 0)
					lid.Spk = cp(dk.pub)
					dpriv, perr := cryptodsa.NewDSAPrivateKey(dk.x)
					if ld, _, lerr := destination.ReadDestination(lid.Encode()); lerr == nil && perr == nil {
						lspk, _ := ld.SigningPublicKey()
						lls, lnerr := lease_set.NewLeaseSet(ld, ek, lspk, mk(i%3), &dpriv)
						lb := built{ctorOK: lnerr == nil, reparse: b.reparse}
						if lnerr == nil {
							lb.validOK = lls.Validate() == nil
							var e error
							lb.bytes, e = lls.Bytes()
							lb.bytesOK = e == nil
						}
						c14Chain(c, "NewLeaseSet (DSA identity)", nil, lb, "")
						c.Check("valid_arguments_accepted", lb.ctorOK, "NewLeaseSet (DSA identity)", nil, "", fmt.Sprintf("valid tuple rejected: %v", lnerr))
					}
				}
				_, e1 := lease_set.NewLeaseSet(d, ek, spk, mk(17), &priv)
				c14Defect(c, "NewLeaseSet", "more than 16 leases", e1 != nil, nil, "")
				_, e2 := lease_set.NewLeaseSet(d, newFakeKey(255), spk, mk(1), &priv)
				c14Defect(c, "NewLeaseSet", "encryption key not 256 bytes", e2 != nil, nil, "")
				_, e3 := lease_set.NewLeaseSet(d, ek, newFakeSPK(31), mk(1), &priv)
				c14Defect(c, "NewLeaseSet", "signing key length not matching the destination's type", e3 != nil, nil, "")
				// ---------- LeaseSet2
				var opts data.Mapping
				if m, merr := data.GoMapToMapping(genOptionsMap(r)); merr == nil {
					opts = *m
				}
				mk2 := func(n int) []lease.Lease2 {
					var ls []lease.Lease2
					for j := 0; j < n; j++ {
						var l lease.Lease2
						copy(l[:], genLease2(r))
						ls = append(ls, l)
					}
					return ls
				}
				goodKeys := []lease_set2.EncryptionKey{{KeyType: 4, KeyLen: 32, KeyData: r.Bytes(32)}}
				// up to the documented maximum of 16 keys
				for nk := []int{1, 1, 2, 16, 15, 3}[i%6]; len(goodKeys) < nk; {
					goodKeys = append(goodKeys, lease_set2.EncryptionKey{KeyType: 4, KeyLen: 32, KeyData: r.Bytes(32)})
				}
				reparse2 := func(b []byte) (bool, []byte, []byte) {
					x, rem, e := lease_set2.ReadLeaseSet2(cat(b, make([]byte, 0)))
					if e != nil {
						return false, nil, nil
					}
					again, _ := x.Bytes()
					return true, rem, again
				}
				l2, n2 := lease_set2.NewLeaseSet2(d, uint32(r.U64()), uint16(r.U64()), uint16(r.Intn(4))<<1, nil, opts, goodKeys, mk2(1+r.Intn(16)), ed25519.PrivateKey(k.priv))
				b2 := built{ctorOK: n2 == nil, reparse: reparse2}
				if n2 == nil {
					b2.validOK = l2.Validate() == nil
					var e error
					b2.bytes, e = l2.Bytes()
					b2.bytesOK = e == nil
					if len(b2.bytes) < lease_set2.LEASESET2_MIN_SIZE {
						b2.reparse = nil // shorter than the whole-input guard: finding D6, reported under C03
					}
				}
				c14Chain(c, "NewLeaseSet2", nil, b2, "")
				if i < 12 {
					// under a legacy identity (DSA-SHA1: 40-byte signature), with few and with many leases
					lid := genIdentTypes(r, 0, 0, i%2 == 0)
					if ld, _, lerr := destination.ReadDestination(lid.Encode()); lerr == nil {
						l2d, n2d := lease_set2.NewLeaseSet2(ld, uint32(r.U64()), uint16(r.U64()), 0, nil, opts, goodKeys, mk2([]int{1, 10, 11, 16}[i%4]), ed25519.PrivateKey(k.priv))
						bd := built{ctorOK: n2d == nil, reparse: reparse2}
						if n2d == nil {
							bd.validOK = l2d.Validate() == nil
							var e error
							bd.bytes, e = l2d.Bytes()
							bd.bytesOK = e == nil
							if len(bd.bytes) < lease_set2.LEASESET2_MIN_SIZE {
								bd.reparse = nil
							}
						}
						c14Chain(c, "NewLeaseSet2 (DSA identity)", nil, bd, "")
					}
				}
				// the same with an options mapping as it arrives from the wire: pairs in arbitrary order
				{
					kvs := []KV{{[]byte("z"), r.Bytes(r.Intn(3))}, {[]byte("m.key"), r.Bytes(2)}, {[]byte("a"), nil}, {[]byte("host"), []byte("x")}}
					for j := len(kvs) - 1; j > 0; j-- {
						q := r.Intn(j + 1)
						kvs[j], kvs[q] = kvs[q], kvs[j]
					}
					kvs = kvs[:2+r.Intn(3)]
					if wm, rem, errs := data.ReadMapping(encodeMapping(kvs)); len(errs) == 0 && len(rem) == 0 {
						l3, n3 := lease_set2.NewLeaseSet2(d, uint32(r.U64()), uint16(r.U64()), uint16(r.Intn(4))<<1, nil, wm, goodKeys, mk2(1+r.Intn(16)), ed25519.PrivateKey(k.priv))
						b3 := built{ctorOK: n3 == nil, reparse: reparse2}
						if n3 == nil {
							b3.validOK = l3.Validate() == nil
							var e error
							b3.bytes, e = l3.Bytes()
							b3.bytesOK = e == nil
						}
						c14Chain(c, "NewLeaseSet2(options in wire order)", nil, b3, "")
					}
				}
				c.Check("valid_arguments_accepted", b2.ctorOK, "NewLeaseSet2", nil, "", fmt.Sprintf("valid tuple rejected: %v", n2))
				// single-defect variants
				_, d1 := lease_set2.NewLeaseSet2(d, 1, 1, 0, nil, opts, nil, mk2(1), nil)
				c14Defect(c, "NewLeaseSet2", "no encryption key", d1 != nil, nil, "")
				var many []lease_set2.EncryptionKey
				for j := 0; j < 17; j++ {
					many = append(many, goodKeys[0])
				}
				_, d2 := lease_set2.NewLeaseSet2(d, 1, 1, 0, nil, opts, many, mk2(1), nil)
				c14Defect(c, "NewLeaseSet2", "17 encryption keys", d2 != nil, nil, "")
				_, d3 := lease_set2.NewLeaseSet2(d, 1, 1, 0, nil, opts, goodKeys, mk2(17), nil)
				c14Defect(c, "NewLeaseSet2", "17 leases", d3 != nil, nil, "")
				_, d4 := lease_set2.NewLeaseSet2(d, 1, 1, 1, nil, opts, goodKeys, mk2(1), nil)
				c14Defect(c, "NewLeaseSet2", "offline flag without offline signature", d4 != nil, nil, "")
				lenMismatch := []lease_set2.EncryptionKey{{KeyType: 4, KeyLen: 31, KeyData: r.Bytes(32)}}
				_, d5 := lease_set2.NewLeaseSet2(d, 1, 1, 0, nil, opts, lenMismatch, mk2(1), nil)
				c14Defect(c, "NewLeaseSet2", "key length field not matching the key data", d5 != nil, nil, "")
				if i < 3 {
					// ... by exactly 2^16: the declared length equals the real one truncated to 16 bits
					wrap := []lease_set2.EncryptionKey{{KeyType: 4, KeyLen: 32, KeyData: r.Bytes(32 + 65536)}}
					_, d5w := lease_set2.NewLeaseSet2(d, 1, 1, 0, nil, opts, wrap, mk2(1), nil)
					c14Defect(c, "NewLeaseSet2", "key data longer than its length field by 65536 bytes", d5w != nil, nil, "")
				}
				if i < 4 {
					x, d6 := lease_set2.NewLeaseSet2(d, 1, 1, 0x0008, nil, opts, goodKeys, mk2(1), nil)
					vr := d6 == nil && x.Validate() != nil
					_ = vr
					c14Defect(c, "NewLeaseSet2", "reserved flag bit set", d6 != nil, nil, "")
					short := []lease_set2.EncryptionKey{{KeyType: 4, KeyLen: 31, KeyData: r.Bytes(31)}}
					y, d7 := lease_set2.NewLeaseSet2(d, 1, 1, 0, nil, opts, short, mk2(1), nil)
					vr2 := d7 == nil && y.Validate() != nil
					_ = vr2
					c14Defect(c, "NewLeaseSet2", "X25519 key of 31 bytes (length not matching its type)", d7 != nil, nil, "")
				}
			}
		}
		// ---------- EncryptedLeaseSet
		{
			inner := r.Bytes(61 + r.Intn(100))
			mkE := func(sigType uint16, key []byte, expires uint16, flags uint16, off *offline_signature.OfflineSignature, in []byte) (*encrypted_leaseset.EncryptedLeaseSet, error) {
				return encrypted_leaseset.NewEncryptedLeaseSet(sigType, key, uint32(r.U64()), expires, flags, off, in, ed25519.PrivateKey(k.priv))
			}
			flags := uint16(r.Intn(2)) << 1
			e, err := mkE(7, cp(k.pub), 1+uint16(r.U64()%65535), flags, nil, inner)
			b := built{ctorOK: err == nil, reparse: func(b []byte) (bool, []byte, []byte) {
				x, rem, pe := encrypted_leaseset.ReadEncryptedLeaseSet(b)
				if pe != nil {
					return false, nil, nil
				}
				again, _ := x.Bytes()
				return true, rem, again
			}}
			if err == nil {
				b.validOK = e.Validate() == nil
				var be error
				b.bytes, be = e.Bytes()
				b.bytesOK = be == nil
			}
			c14Chain(c, "NewEncryptedLeaseSet", nil, b, "")
			c.Check("valid_arguments_accepted", b.ctorOK, "NewEncryptedLeaseSet", nil, "", fmt.Sprintf("valid tuple rejected: %v", err))
			// with offline keys and both flag bits
			t := genEd(r)
			if o, oerr := offline_signature.CreateOfflineSignature(1+uint32(r.U64()>>33), 7, t.pub, ed25519.PrivateKey(k.priv), 7); oerr == nil {
				e2, err2 := encrypted_leaseset.NewEncryptedLeaseSet(7, cp(k.pub), 5, 9, flags|1, &o, inner, ed25519.PrivateKey(t.priv))
				b2 := built{ctorOK: err2 == nil, reparse: b.reparse}
				if err2 == nil {
					b2.validOK = e2.Validate() == nil
					var be error
					b2.bytes, be = e2.Bytes()
					b2.bytesOK = be == nil
				}
				c14Chain(c, "NewEncryptedLeaseSet(offline)", nil, b2, "")
				c.Check("valid_arguments_accepted", b2.ctorOK, "NewEncryptedLeaseSet(offline)", nil, "", fmt.Sprintf("valid tuple rejected: %v", err2))
				_, x1 := encrypted_leaseset.NewEncryptedLeaseSet(7, cp(k.pub), 5, 9, 0, &o, inner, ed25519.PrivateKey(t.priv))
				c14Defect(c, "NewEncryptedLeaseSet", "offline signature without the offline flag", x1 != nil, nil, "")
			}
			// every known blinded-key type, offline keys with an Ed25519 transient key: the trailing
			// signature then has the transient type's length, the offline block's signature the blinded type's
			for _, bt := range []int{0, 1, 2, 3, 4, 5, 6, 7, 8, 11} {
				bl, okL := specSigPubLen[bt]
				sl, okS := specSigLen[bt]
				if !okL || !okS {
					continue
				}
				o3, oe := offline_signature.NewOfflineSignature(4000000000-uint32(r.Intn(1000)), 7, cp(t.pub), r.Bytes(sl), uint16(bt))
				if oe != nil {
					continue
				}
				e3, err3 := encrypted_leaseset.NewEncryptedLeaseSet(uint16(bt), r.Bytes(bl), uint32(r.U64()), 1+uint16(r.U64()%65535), flags|1, &o3, inner, ed25519.PrivateKey(t.priv))
				b3 := built{ctorOK: err3 == nil, reparse: b.reparse}
				if err3 == nil {
					b3.validOK = e3.Validate() == nil
					var be error
					b3.bytes, be = e3.Bytes()
					b3.bytesOK = be == nil
				}
				c14Chain(c, fmt.Sprintf("NewEncryptedLeaseSet(offline, blinded type %d)", bt), nil, b3, "")
			}
			_, x2 := mkE(7, cp(k.pub)[:31], 9, 0, nil, inner)
			c14Defect(c, "NewEncryptedLeaseSet", "blinded key length not matching its type", x2 != nil, nil, "")
			_, x3 := mkE(7, cp(k.pub), 0, 0, nil, inner)
			c14Defect(c, "NewEncryptedLeaseSet", "zero expires offset", x3 != nil, nil, "")
			_, x4 := mkE(7, cp(k.pub), 9, 4, nil, inner)
			c14Defect(c, "NewEncryptedLeaseSet", "reserved flag bit", x4 != nil, nil, "")
			_, x5 := mkE(7, cp(k.pub), 9, 1, nil, inner)
			c14Defect(c, "NewEncryptedLeaseSet", "offline flag without offline signature", x5 != nil, nil, "")
			_, x6 := mkE(7, cp(k.pub), 9, 0, nil, inner[:60])
			c14Defect(c, "NewEncryptedLeaseSet", "inner data shorter than the minimum", x6 != nil, nil, "")
			_, x7 := mkE(9, cp(k.pub), 9, 0, nil, inner)
			c14Defect(c, "NewEncryptedLeaseSet", "unknown signature type", x7 != nil, nil, "")
		}
		// ---------- KeyCertificate with types
		{
			sT := []int{0, 1, 2, 3, 4, 5, 6, 7, 8, 11, 9, 12, 65280, 65535}[r.Intn(14)]
			cT := []int{0, 1, 2, 3, 4, 5, 6, 7, 8, 65280, 65535}[r.Intn(11)]
			kc, err := key_certificate.NewKeyCertificateWithTypes(sT, cT)
			if err == nil {
				bb := kc.Bytes()
				k2, rem, perr := key_certificate.NewKeyCertificate(bb)
				ok := perr == nil && len(rem) == 0 && bytes.Equal(k2.Bytes(), bb) && k2.SigningPublicKeyType() == sT && k2.PublicKeyType() == cT
				c.Check("valid_value_round_trips", ok, "NewKeyCertificateWithTypes", [][]byte{bb}, "", "key certificate does not round-trip")
			}
		}
	}
}
