package main

import (
	"bytes"
	"fmt"
)

func init() { props["C03"] = runC03 }

// C03: consumed ++ remainder = input; appending bytes changes neither value nor consumed
// length; no proper prefix of a completely consumed encoding parses.
func runC03(c *Ctx) {
	r := c.R
	for i := range parsers {
		p := &parsers[i]
		if !p.HasRem {
			// ReadLeaseSet returns no remainder: whatever it accepts it has consumed completely, so no
			// proper prefix of an exact encoding (by the independent encoder) it accepts may parse
			forInputsW(c, p, c.N(25, 60), 2, c.N(10, 40), func(input []byte, extra [][]byte, kind string, wlen int) {
				if wlen != len(input) || p.InexactGen || (kind == "systematic" && c.Tier == "quick" && len(input) > 600) {
					return
				}
				res := runParser(c, p, input, extra)
				if !res.OK {
					return
				}
				cuts := []int{len(input) - 1, len(input) - 2, len(input) - 3, 0}
				for k := 0; k < 12; k++ {
					cuts = append(cuts, r.Intn(len(input)))
				}
				for _, k := range cuts {
					if k < 0 || k >= len(input) {
						continue
					}
					res3 := runParser(c, p, input[:k], extra)
					c.Check("no_proper_prefix", !res3.OK, p.Name, append([][]byte{input[:k]}, extra...), "",
						fmt.Sprintf("prefix of length %d of a %d-byte encoding parsed", k, len(input)))
				}
			})
			continue
		}
		forInputsW(c, p, c.N(25, 60), 2, c.N(10, 40), func(input []byte, extra [][]byte, kind string, wlen int) {
			res := runParser(c, p, input, extra)
			if kind == "appended" && wlen >= 0 && wlen < len(input) && len(input)-wlen > 1000 {
				// a long tail: whatever parse(w) is, parse(w ++ tail) is the same value and leaves the tail
				base := runParser(c, p, input[:wlen], extra)
				if base.OK {
					ok := res.OK && bytes.Equal(res.Bytes, base.Bytes) && bytes.Equal(res.Rem, cat(base.Rem, input[wlen:]))
					c.Check("append_invariant", ok, p.Name, append([][]byte{input[:wlen], i64(int64(len(input) - wlen))}, extra...), "",
						fmt.Sprintf("parse(w) succeeds; with %d more bytes appended: ok=%v", len(input)-wlen, res.OK))
				}
			}
			if !res.OK {
				return
			}
			args := append([][]byte{input}, extra...)
			// (1) the remainder is a suffix of the input
			okSuffix := len(res.Rem) <= len(input) && bytes.Equal(input[len(input)-len(res.Rem):], res.Rem)
			c.Check("remainder_is_suffix", okSuffix, p.Name, args, "", fmt.Sprintf("len(input)=%d len(rem)=%d", len(input), len(res.Rem)))
			if !okSuffix {
				return
			}
			consumed := input[:len(input)-len(res.Rem)]
			// (1a) a mapping's extent is its two-byte size field plus that many bytes
			if p.Name == "ReadMapping" && len(input) >= 2 {
				if size := int(input[0])<<8 | int(input[1]); len(input) >= 2+size {
					c.Check("consumes_declared_extent", len(consumed) == 2+size, p.Name, args, "",
						fmt.Sprintf("mapping declares %d bytes, parser consumed %d", 2+size, len(consumed)))
				}
			}
			// (1b) the structure's own declared extent, known from the independent encoder
			if wlen >= 0 && !p.InexactGen {
				c.Check("consumes_declared_extent", len(consumed) == wlen, p.Name, args, "",
					fmt.Sprintf("structure is %d bytes, parser consumed %d", wlen, len(consumed)))
			}
			// (2) appended bytes: same value, same consumed length
			for k := 0; k < 2; k++ {
				tail := r.Bytes(1 + r.Intn(30))
				if k == 1 {
					tail = []byte{0}
				}
				in2 := cat(input, tail)
				res2 := runParser(c, p, in2, extra)
				ok := res2.OK && bytes.Equal(res2.Bytes, res.Bytes) && bytes.Equal(res2.Rem, cat(res.Rem, tail))
				// ReadMapping: the only accepted difference is the embedded-mapping warning, not visible here
				c.Check("append_invariant", ok, p.Name, append([][]byte{in2}, extra...), "",
					fmt.Sprintf("parse(w)=%d consumed, parse(w++x): ok=%v consumed=%d", len(consumed), res2.OK, len(in2)-len(res2.Rem)))
			}
			// (3) no proper prefix of the consumed encoding parses
			if !(kind == "systematic" && c.Tier == "quick") { // the systematic stream is large: its prefixes are cut in the thorough tier
				w := consumed
				cuts := []int{}
				if len(w) <= 64 || (c.Tier == "thorough" && kind != "systematic" && len(w) <= 2500) {
					for k := 0; k < len(w); k++ {
						cuts = append(cuts, k)
					}
				} else {
					for k := 0; k < 24; k++ {
						cuts = append(cuts, r.Intn(len(w)))
					}
					cuts = append(cuts, len(w)-1, len(w)-2, 0)
				}
				for _, k := range cuts {
					if k < 0 || k >= len(w) {
						continue
					}
					pre := w[:k]
					res3 := runParser(c, p, pre, extra)
					class := ""
					if res3.OK && p.Name == "ReadMapping" {
						// a mapping prefix that is itself a complete mapping (size field 0 inside)
						// cannot occur: consumed = 2+size bytes and a cut shortens below that
					}
					c.Check("no_proper_prefix", !res3.OK, p.Name, append([][]byte{pre}, extra...), class,
						fmt.Sprintf("prefix of length %d of a %d-byte encoding parsed", k, len(w)))
				}
			}
			// (4) whole-input minimum-size guards: a complete encoding shorter than the guard
			if p.MinSizeGuard > 0 && len(consumed) < p.MinSizeGuard {
				c.Check("min_size_guard_prefix", true, p.Name, args, "", "")
			}
		})
	}
	// finding D6: complete, spec-valid encodings shorter than the whole-input guard are
	// accepted only when followed by enough unrelated bytes
	for i := range parsers {
		p := &parsers[i]
		if p.MinSizeGuard == 0 || p.Name == "ReadEncryptedLeaseSet" {
			continue
		}
		for k := 0; k < c.N(6, 100); k++ {
			var w []byte
			// smallest shapes: DSA/ElGamal NULL-cert destination, one short key / entry, no leases
			d := genIdentTypes(r, 0, 0, true)
			d.CertExtra = nil
			if p.Name == "ReadLeaseSet2" {
				l := LeaseSet2V{H: LS2Header{Dest: d, Published: 1, Expires: 1}, Keys: []EncKey{{4, r.Bytes(32)}}, Sig: r.Bytes(40)}
				w = l.Encode()
			} else {
				m := MetaLeaseSetV{H: LS2Header{Dest: d, Published: 1, Expires: 1}, Entries: []MetaEntry{{r.Bytes(32), 3, 1, 1, nil}}, Sig: r.Bytes(40)}
				w = m.Encode()
			}
			alone := runParser(c, p, w, nil)
			padded := runParser(c, p, cat(w, make([]byte, 64)), nil)
			ok := alone.OK == padded.OK
			c.Check("acceptance_independent_of_trailing_bytes", ok, p.Name, [][]byte{w}, "min-size-guard",
				fmt.Sprintf("%d-byte complete encoding: alone ok=%v, followed by 64 bytes ok=%v", len(w), alone.OK, padded.OK))
		}
	}
}
