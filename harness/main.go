package main

import (
	"flag"
	"fmt"
	"os"
	"strconv"
)

var props = map[string]func(*Ctx){}

func main() {
	prop := flag.String("prop", "", "property id")
	tier := flag.String("tier", "quick", "quick|thorough")
	out := flag.String("out", "", "output directory")
	seedS := flag.String("seed", "1", "seed")
	flag.Parse()
	seed, _ := strconv.ParseUint(*seedS, 10, 64)
	f, ok := props[*prop]
	if !ok {
		fmt.Fprintln(os.Stderr, "harness: unknown property", *prop)
		os.Exit(2)
	}
	c := openCtx(*prop, *tier, seed, *out)
	f(c)
	c.close(*out)
}
