package main

import (
	"flag"
	"fmt"
	"os"
	"strconv"
)

var props = map[string]func(*Ctx){}

func main() {
	prop := flag.String("prop", "", "property id")
	tier := flag.String("tier", "quick", "quick|thorough")
	out := flag.String("out", "", "output directory")
	seedS := flag.String("seed", "1", "seed")
	resolve := flag.String("resolve", "", "directory whose model.txt holds verification queries to be answered")
	flag.Parse()
	if *resolve != "" {
		if err := resolveQueries(*resolve); err != nil {
			fmt.Fprintln(os.Stderr, "harness: resolve:", err)
			os.Exit(2)
		}
		return
	}
	seed, _ := strconv.ParseUint(*seedS, 10, 64)
	f, ok := props[*prop]
	if !ok {
		fmt.Fprintln(os.Stderr, "harness: unknown property", *prop)
		os.Exit(2)
	}
	c := openCtx(*prop, *tier, seed, *out)
	f(c)
	c.close(*out)
}
