package main

import (
	"bytes"
	"fmt"
	"time"

	"github.com/go-i2p/common/destination"
	"github.com/go-i2p/common/encrypted_leaseset"
	"github.com/go-i2p/common/lease_set2"
	"github.com/go-i2p/crypto/chacha20poly1305"
	cryptoed "github.com/go-i2p/crypto/ed25519"
	"github.com/go-i2p/crypto/kdf"
	"go.step.sm/crypto/x25519"
)

func init() { props["C16"] = runC16 }

type detRand struct{ r *Rng }

func (d detRand) Read(p []byte) (int, error) {
	for i := range p {
		p[i] = byte(d.r.U64())
	}
	return len(p), nil
}

// civil date string from Unix seconds, independent of package time
func civilDate(sec int64) string {
	days := sec / 86400
	if sec%86400 < 0 {
		days--
	}
	z := days + 719468
	era := z / 146097
	if z < 0 {
		era = (z - 146096) / 146097
	}
	doe := z - era*146097
	yoe := (doe - doe/1460 + doe/36524 - doe/146096) / 365
	y := yoe + era*400
	doy := doe - (365*yoe + yoe/4 - yoe/100)
	mp := (5*doy + 2) / 153
	d := doy - (153*mp+2)/5 + 1
	m := mp + 3
	if mp >= 10 {
		m = mp - 9
	}
	if m <= 2 {
		y++
	}
	return fmt.Sprintf("%04d-%02d-%02d", y, m, d)
}

// independent decryptor following the model's layout
func independentDecrypt(priv x25519.PrivateKey, data []byte) ([]byte, bool, [][]byte) {
	if len(data) < 60 {
		return nil, false, nil
	}
	eph, nonce, ct, tag := data[:32], data[32:44], data[44:len(data)-16], data[len(data)-16:]
	shared, err := priv.SharedKey(eph)
	if err != nil {
		return nil, false, nil
	}
	var root [32]byte
	copy(root[:], shared)
	key, err := kdf.NewKeyDerivation(root).DeriveForPurpose(kdf.PurposeEncryptedLeaseSetEncryption)
	if err != nil {
		return nil, false, nil
	}
	aead, err := chacha20poly1305.NewAEAD(key)
	if err != nil {
		return nil, false, nil
	}
	pt, err := aead.Decrypt(ct, tag, nil, nonce)
	if err != nil {
		return nil, false, nil
	}
	return pt, true, [][]byte{eph, nonce, ct, tag}
}

func runC16(c *Ctx) {
	r := c.R
	// ---------- encrypt / decrypt
	for i := 0; i < c.N(60, 2000); i++ {
		l := genLeaseSet2(r)
		w := l.Encode()
		ls, _, err := lease_set2.ReadLeaseSet2(cat(w, make([]byte, 0)))
		if err != nil {
			continue // shorter than the whole-input guard (finding D6) or options slack
		}
		plain, _ := ls.Bytes()
		// the structure was encoded independently (harness/spec.go), without mapping slack: "identical
		// bytes" is measured against that encoding, not against what the library made of it
		c.Check("decrypt_encrypt_identity", bytes.Equal(plain, w), "ReadLeaseSet2 -> Bytes (plaintext of the round trip)", [][]byte{w}, "", "the LeaseSet2 to be encrypted does not serialise to its own encoding")
		pub, priv, _ := x25519.GenerateKey(detRand{r})
		var cookie [32]byte
		copy(cookie[:], r.Bytes(32))
		enc, eerr := encrypted_leaseset.EncryptInnerLeaseSet2(&ls, cookie, pub)
		if eerr != nil {
			c.Check("encrypt_succeeds", false, "EncryptInnerLeaseSet2", [][]byte{plain}, "", fmt.Sprintf("%v", eerr))
			continue
		}
		// layout: model vs an independent decryptor that uses exactly the model's offsets
		var ipt []byte
		var iok bool
		c.Case(E_ELSSplit, [][]byte{enc}, func() Obs {
			pt, ok, parts := independentDecrypt(priv, enc)
			ipt, iok = pt, ok
			if !ok {
				return ERR()
			}
			return OK(parts...)
		})
		c.Check("ciphertext_layout", iok && bytes.Equal(ipt, plain) && len(enc) == 32+12+len(plain)+16, "EncryptInnerLeaseSet2", [][]byte{enc}, "",
			fmt.Sprintf("independent decryption with eph(32)||nonce(12)||ct||tag(16) ok=%v, len=%d for %d-byte plaintext", iok, len(enc), len(plain)))
		// decrypt through the library (needs an EncryptedLeaseSet value carrying the data)
		k := genEd(r)
		els, nerr := encrypted_leaseset.NewEncryptedLeaseSet(7, cp(k.pub), 1, 1, 0, nil, cp(enc), stdPriv(k))
		if nerr != nil {
			continue
		}
		dec, derr := els.DecryptInnerData(cookie[:], priv)
		ok := derr == nil && dec != nil
		if ok {
			db, _ := dec.Bytes()
			ok = bytes.Equal(db, plain)
		}
		c.Check("decrypt_encrypt_identity", ok, "DecryptInnerData(EncryptInnerLeaseSet2(x))", [][]byte{plain}, "", fmt.Sprintf("err=%v", derr))
		// the matching private key in every form the library says it accepts (value, pointer, 32 raw
		// bytes), and the recipient key likewise on the encrypting side
		if i < 6 {
			privCopy := append(x25519.PrivateKey(nil), priv...)
			forms := []struct {
				name string
				key  interface{}
			}{{"pointer", &privCopy}, {"raw 32-byte slice", []byte(append([]byte(nil), priv...))}}
			for _, f := range forms {
				df, ef := els.DecryptInnerData(cookie[:], f.key)
				okf := ef == nil && df != nil
				if okf {
					db, _ := df.Bytes()
					okf = bytes.Equal(db, plain)
				}
				c.Check("decrypt_encrypt_identity", okf, "DecryptInnerData (private key as "+f.name+")", [][]byte{plain}, "", fmt.Sprintf("the matching private key given as %s: err=%v", f.name, ef))
			}
			pubCopy := append(x25519.PublicKey(nil), pub...)
			pforms := []struct {
				name string
				key  interface{}
			}{{"pointer", &pubCopy}, {"raw 32-byte slice", []byte(append([]byte(nil), pub...))}}
			for _, f := range pforms {
				enc2, ee := encrypted_leaseset.EncryptInnerLeaseSet2(&ls, cookie, f.key)
				okf := ee == nil
				if okf {
					pt, ok2, _ := independentDecrypt(priv, enc2)
					okf = ok2 && bytes.Equal(pt, plain)
				}
				c.Check("decrypt_encrypt_identity", okf, "EncryptInnerLeaseSet2 (recipient key as "+f.name+")", [][]byte{plain}, "", fmt.Sprintf("recipient key given as %s: err=%v", f.name, ee))
			}
		}
		// a different private key
		_, priv2, _ := x25519.GenerateKey(detRand{r})
		d2, e2 := els.DecryptInnerData(cookie[:], priv2)
		c.Check("wrong_key_rejected", e2 != nil && d2 == nil, "DecryptInnerData", [][]byte{enc}, "", "decryption with another private key returned a value")
		// decryption is a query: after a successful and a refused attempt, the matching key still
		// decrypts the same (untouched) value to the same bytes, and the value serialises as before
		elsB0, _ := els.Bytes()
		for rep := 0; rep < 2; rep++ {
			dr, er := els.DecryptInnerData(cookie[:], priv)
			okr := er == nil && dr != nil
			if okr {
				db, _ := dr.Bytes()
				okr = bytes.Equal(db, plain)
			}
			c.Check("decrypt_encrypt_identity", okr, "DecryptInnerData (repeated)", [][]byte{plain}, "", fmt.Sprintf("decryption attempt %d on the same value after earlier attempts: err=%v", rep+2, er))
			els.DecryptInnerData(cookie[:], priv2)
		}
		elsB1, _ := els.Bytes()
		c.Check("decrypt_encrypt_identity", bytes.Equal(elsB0, elsB1), "DecryptInnerData (repeated)", [][]byte{plain}, "", "the EncryptedLeaseSet serialises differently after decryption attempts")
		// every single-byte modification of the ciphertext (all offsets in thorough, a spread in quick)
		step := 1
		if c.Tier == "quick" {
			step = 1 + len(enc)/40
		}
		offs := []int{}
		for off := 0; off < len(enc); off += step {
			offs = append(offs, off)
		}
		// always: the last byte of the ephemeral key with exactly its top bit flipped (X25519
		// ignores that bit, defect D23), and the boundaries of the four parts
		offs = append(offs, -31, 0, 31, 32, 43, 44, len(enc)-17, len(enc)-16, len(enc)-1)
		for _, off := range offs {
			m := cp(enc)
			if off == -31 {
				off = 31
				m[off] ^= 0x80
			} else {
				m[off] ^= byte(1 + r.Intn(255))
			}
			e3, n3 := encrypted_leaseset.NewEncryptedLeaseSet(7, cp(k.pub), 1, 1, 0, nil, m, stdPriv(k))
			if n3 != nil {
				continue
			}
			d3, err3 := e3.DecryptInnerData(cookie[:], priv)
			c.Check("modified_ciphertext_rejected", err3 != nil && d3 == nil, "DecryptInnerData", [][]byte{m}, "", fmt.Sprintf("byte %d modified: decryption returned a value", off))
		}
		for _, cut := range []int{0, 31, 59, 60, len(enc) - 1} {
			if cut < 0 || cut > len(enc) {
				continue
			}
			c.Case(E_ELSSplit, [][]byte{enc[:cut]}, func() Obs {
				_, ok, parts := independentDecrypt(priv, enc[:cut])
				if !ok {
					if cut >= 60 { // long enough to split; authentication fails — report the split anyway
						d := enc[:cut]
						return OK(d[:32], d[32:44], d[44:len(d)-16], d[len(d)-16:])
					}
					return ERR()
				}
				return OK(parts...)
			})
		}
	}
	// ---------- blinding
	locs := []*time.Location{time.UTC, time.FixedZone("w5", -5*3600), time.FixedZone("w1", -3600), time.FixedZone("e2", 2*3600), time.FixedZone("e14", 14*3600), time.FixedZone("w12", -12*3600), time.FixedZone("e0530", 5*3600+1800)}
	for i := 0; i < c.N(40, 1500); i++ {
		k := genEd(r)
		sigType := []int{7, 11}[r.Intn(2)]
		id := genSignedIdent(r, k, sigType, false)
		d, _, err := destination.ReadDestination(id.Encode())
		if err != nil {
			continue
		}
		secret := r.Bytes(32 + r.Intn(20))
		base := int64(r.U64()%4000000000) / 86400 * 86400 // a UTC midnight between 1970 and 2096
		instants := []int64{base, base - 1, base + 1, base + 86399, base + 86400, base + 43200, base - 86400}
		var pubArr [32]byte
		copy(pubArr[:], k.pub)
		for _, sec := range instants {
			for _, loc := range locs {
				t := time.Unix(sec, int64(r.Intn(1000000000))).In(loc)
				before, _ := d.Bytes()
				bd, berr := encrypted_leaseset.CreateBlindedDestination(d, secret, t)
				after, _ := d.Bytes()
				c.Check("blinding_leaves_destination_unchanged", bytes.Equal(before, after), "CreateBlindedDestination", [][]byte{before, i64(sec)}, "",
					fmt.Sprintf("the caller's destination serialises differently after the call: %x -> %x (last 7 bytes)", tail7(before), tail7(after)))
				if berr != nil {
					c.Check("blinding_succeeds", false, "CreateBlindedDestination", [][]byte{i64(sec)}, "", fmt.Sprintf("%v", berr))
					continue
				}
				bspk, _ := bd.SigningPublicKey()
				// which UTC day does the result correspond to?
				found := ""
				var alphaFound [32]byte
				for _, cand := range []int64{sec, sec - 86400, sec + 86400} {
					ds := civilDate(cand)
					alpha, aerr := kdf.DeriveBlindingFactor(secret, ds)
					if aerr != nil {
						continue
					}
					exp, perr := cryptoed.BlindPublicKey(pubArr, alpha)
					if perr == nil && bytes.Equal(exp[:], bspk.Bytes()) {
						found, alphaFound = ds, alpha
						break
					}
				}
				c.Case(E_BlindingDate, [][]byte{i64(sec)}, func() Obs { return OK([]byte(found)) })
				want := civilDate(sec)
				c.Check("blinding_uses_utc_day", found == want, "CreateBlindedDestination", [][]byte{i64(sec), []byte(loc.String())}, "",
					fmt.Sprintf("instant %d in %s: blinded with the factor of day %q, UTC day is %q", sec, loc, found, want))
				if found == "" {
					continue
				}
				// keeps encryption key, padding and certificate; different signing key
				ob, _ := d.Bytes()
				bb, _ := bd.Bytes()
				keep := len(ob) == len(bb) && bytes.Equal(ob[:384-32], bb[:384-32]) && bytes.Equal(ob[384:], bb[384:]) && !bytes.Equal(ob[384-32:384], bb[384-32:384])
				c.Check("blinding_keeps_other_fields", keep, "CreateBlindedDestination", [][]byte{ob}, "", "encryption key / padding / certificate changed or signing key unchanged")
				// passes the library's own check with the derived factor and fails with any other
				other := alphaFound
				other[r.Intn(32)] ^= byte(1 + r.Intn(255))
				consistent, pan := calm(func() bool {
					return encrypted_leaseset.VerifyBlindedSignature(bd, d, alphaFound) && !encrypted_leaseset.VerifyBlindedSignature(bd, d, other)
				})
				c.Check("blinding_check_consistent", consistent,
					"VerifyBlindedSignature", [][]byte{ob, alphaFound[:]}, "", "derived factor rejected or another factor accepted "+pan)
				// deterministic
				bd2, _ := encrypted_leaseset.CreateBlindedDestination(d, secret, t)
				b2, _ := bd2.Bytes()
				c.Check("blinding_deterministic", bytes.Equal(b2, bb), "CreateBlindedDestination", [][]byte{ob}, "", "two calls differ")
			}
		}
	}
	// date strings over the whole supported range (model vs package time, which the library uses)
	for i := 0; i < c.N(500, 20000); i++ {
		sec := int64(r.U64() % 253402300800) // up to 9999-12-31
		if r.Intn(4) == 0 {
			sec = sec / 86400 * 86400
			sec += int64([]int{-1, 0, 1, 86399}[r.Intn(4)])
			if sec < 0 {
				sec = 0
			}
		}
		c.Check("civil_date_reference", civilDate(sec) == time.Unix(sec, 0).UTC().Format("2006-01-02"), "civil date", [][]byte{i64(sec)}, "", "harness reference disagrees with package time")
		c.Case(E_BlindingDate, [][]byte{i64(sec)}, func() Obs { return OK([]byte(time.Unix(sec, 0).UTC().Format("2006-01-02"))) })
	}
}

func tail7(b []byte) []byte {
	if len(b) < 7 {
		return b
	}
	return b[len(b)-7:]
}
