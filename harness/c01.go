package main

import (
	"bytes"
	"fmt"
)

func init() { props["C01"] = runC01 }

// slackOnly reports whether y is x with, in one or more places, a 2-byte big-endian size
// field reduced by d (1..5) and d bytes deleted right after the S-d bytes that follow it:
// exactly the effect of mapping slack that is accepted but not re-serialised (finding D2).
func slackOnly(x, y []byte, depth int) bool {
	if bytes.Equal(x, y) {
		return depth > 0
	}
	if depth > 24 {
		return false
	}
	i := 0
	for i < len(x) && i < len(y) && x[i] == y[i] {
		i++
	}
	for _, p := range []int{i - 1, i} {
		if p < 0 || p+2 > len(x) || p+2 > len(y) {
			continue
		}
		sx := int(x[p])<<8 | int(x[p+1])
		sy := int(y[p])<<8 | int(y[p+1])
		d := sx - sy
		if d < 1 || d > 5 {
			continue
		}
		if p+2+sx > len(x) || p+2+sy > len(y) {
			continue
		}
		if !bytes.Equal(x[p+2:p+2+sy], y[p+2:p+2+sy]) {
			continue
		}
		if slackOnly(x[p+2+sx:], y[p+2+sy:], depth+1) || bytes.Equal(x[p+2+sx:], y[p+2+sy:]) {
			return true
		}
	}
	return false
}

var mappingBearing = map[string]bool{"ReadMapping": true, "ReadRouterAddress": true, "ReadRouterInfo": true, "ReadLeaseSet2": true, "ReadMetaLeaseSet": true}

// the C01 oracle: Bytes(parse x) ++ remainder == x
func c01Oracle(c *Ctx, p *Parser, input []byte, extra [][]byte, res Parsed) {
	if !res.OK {
		return
	}
	args := append([][]byte{input}, extra...)
	var ok bool
	var consumed []byte
	if p.HasRem {
		ok = len(res.Rem) <= len(input) && bytes.Equal(append(cp(res.Bytes), res.Rem...), input)
		if len(res.Rem) <= len(input) {
			consumed = input[:len(input)-len(res.Rem)]
		}
	} else {
		ok = len(res.Bytes) <= len(input) && bytes.Equal(res.Bytes, input[:len(res.Bytes)])
	}
	class := ""
	if !ok && mappingBearing[p.Name] && consumed != nil && slackOnly(consumed, res.Bytes, 0) {
		class = "mapping-slack"
	}
	c.Check("reserialise_equals_consumed", ok, p.Name, args, class,
		fmt.Sprintf("len(input)=%d len(Bytes)=%d len(rem)=%d", len(input), len(res.Bytes), len(res.Rem)))
}

// the standard input streams for a parser: well-formed, field mutations, appended data,
// truncations, raw bytes.  f is called for every (input, extra).
func forInputs(c *Ctx, p *Parser, nWell, nMut, nRaw int, f func(input []byte, extra [][]byte, kind string)) {
	forInputsW(c, p, nWell, nMut, nRaw, func(input []byte, extra [][]byte, kind string, wlen int) { f(input, extra, kind) })
}

// forInputsW also passes the length of the well-formed structure at the start of the input
// (-1 when the input is not known to start with one).
func forInputsW(c *Ctx, p *Parser, nWell, nMut, nRaw int, f func(input []byte, extra [][]byte, kind string, wlen int)) {
	r := c.R
	for i := 0; i < nWell; i++ {
		w := p.Gen(r)
		var extra [][]byte
		if p.Extra != nil {
			extra = p.Extra(r)
		}
		f(w, extra, "wellformed", len(w))
		f(cat(w, r.Bytes(1+r.Intn(40))), extra, "appended", len(w))
		if len(w) > 0 {
			f(w[:r.Intn(len(w))], extra, "truncated", -1)
		}
		for k := 0; k < nMut; k++ {
			m := mutateFields(r, w)
			if r.Intn(3) == 0 {
				m = cat(m, r.Bytes(r.Intn(600)))
			}
			f(m, extra, "mutated", -1)
		}
	}
	for i := 0; i < nRaw; i++ {
		var extra [][]byte
		if p.Extra != nil {
			extra = p.Extra(r)
		}
		n := r.Intn(700)
		if r.Intn(4) == 0 {
			n = r.Intn(12)
		}
		b := r.Bytes(n)
		if n > 390 && r.Bool() {
			b[384] = []byte{0, 5}[r.Intn(2)]
			b[385] = 0
			b[386] = byte(r.Intn(12))
		}
		f(b, extra, "raw", -1)
	}
}

func runC01(c *Ctx) {
	// witnesses of the recorded finding D2 run first
	slackMap := []byte{0x00, 0x0a, 0x01, 'a', '=', 0x01, 'b', ';', 0xde, 0xad, 0xbe, 0xef}
	for i := range parsers {
		p := &parsers[i]
		if p.Name == "ReadMapping" {
			res := runParser(c, p, slackMap, nil)
			c01Oracle(c, p, slackMap, nil, res)
		}
	}
	for i := range parsers {
		p := &parsers[i]
		forInputs(c, p, c.N(60, 2500), 4, c.N(40, 1500), func(input []byte, extra [][]byte, kind string) {
			res := runParser(c, p, input, extra)
			c01Oracle(c, p, input, extra, res)
		})
	}
}
