package main

import (
	"reflect"
	"bytes"
	"fmt"
)

func init() { props["C01"] = runC01 }

// slackOnly reports whether y is x with, in one or more places, a 2-byte big-endian size
// field reduced by d (1..5) and d bytes deleted right after the S-d bytes that follow it:
// exactly the effect of mapping slack that is accepted but not re-serialised (finding D2).
func slackOnly(x, y []byte, depth int) bool {
	if bytes.Equal(x, y) {
		return depth > 0
	}
	if depth > 24 {
		return false
	}
	i := 0
	for i < len(x) && i < len(y) && x[i] == y[i] {
		i++
	}
	for _, p := range []int{i - 1, i} {
		if p < 0 || p+2 > len(x) || p+2 > len(y) {
			continue
		}
		sx := int(x[p])<<8 | int(x[p+1])
		sy := int(y[p])<<8 | int(y[p+1])
		d := sx - sy
		if d < 1 || d > 5 {
			continue
		}
		if p+2+sx > len(x) || p+2+sy > len(y) {
			continue
		}
		if !bytes.Equal(x[p+2:p+2+sy], y[p+2:p+2+sy]) {
			continue
		}
		if slackOnly(x[p+2+sx:], y[p+2+sy:], depth+1) || bytes.Equal(x[p+2+sx:], y[p+2+sy:]) {
			return true
		}
	}
	return false
}

var mappingBearing = map[string]bool{"ReadMapping": true, "ReadRouterAddress": true, "ReadRouterInfo": true, "ReadLeaseSet2": true, "ReadMetaLeaseSet": true}

// the C01 oracle: Bytes(parse x) ++ remainder == x
func c01Oracle(c *Ctx, p *Parser, input []byte, extra [][]byte, res Parsed) {
	if res.SerErr != "" {
		// accepted without error, yet the returned value has no serialisation at all
		c.Check("reserialise_equals_consumed", false, p.Name, append([][]byte{input}, extra...), "",
			"the reader accepted the input but the value it returned cannot be serialised: "+res.SerErr)
		return
	}
	if !res.OK {
		return
	}
	args := append([][]byte{input}, extra...)
	var ok bool
	var consumed []byte
	if p.HasRem {
		ok = len(res.Rem) <= len(input) && bytes.Equal(append(cp(res.Bytes), res.Rem...), input)
		if len(res.Rem) <= len(input) {
			consumed = input[:len(input)-len(res.Rem)]
		}
	} else {
		ok = len(res.Bytes) <= len(input) && bytes.Equal(res.Bytes, input[:len(res.Bytes)])
	}
	class := ""
	if !ok && mappingBearing[p.Name] && consumed != nil && slackOnly(consumed, res.Bytes, 0) {
		class = "mapping-slack"
	}
	c.Check("reserialise_equals_consumed", ok, p.Name, args, class,
		fmt.Sprintf("len(input)=%d len(Bytes)=%d len(rem)=%d", len(input), len(res.Bytes), len(res.Rem)))
	// the serialisation handed out is the caller's: writing into it (or appending to it) and
	// serialising again must still reproduce the consumed bytes
	if st, app := stableStruct(res.Val); app {
		c.Check("reserialise_stable_after_caller_writes", st, p.Name, args, "", "serialising again after writing over the first result gives different bytes")
	}
	// queries in between: every exported argument-free method of the value is a read-only question;
	// after asking all of them the value must still serialise to the bytes it was read from
	if res.Val != nil && reflect.ValueOf(res.Val).Kind() == reflect.Ptr {
		before := reserialise(res.Val)
		if before != nil {
			callAllMethods(res.Val)
			after := reserialise(res.Val)
			c.Check("reserialise_stable_after_queries", bytes.Equal(before, after), p.Name, args, "",
				"after calling the value's argument-free methods (accessors, expiry queries, Verify, Validate) its serialisation changed")
		}
	}
}

// the standard input streams for a parser: well-formed, field mutations, appended data,
// truncations, raw bytes.  f is called for every (input, extra).
func forInputs(c *Ctx, p *Parser, nWell, nMut, nRaw int, f func(input []byte, extra [][]byte, kind string)) {
	forInputsW(c, p, nWell, nMut, nRaw, func(input []byte, extra [][]byte, kind string, wlen int) { f(input, extra, kind) })
}

// forInputsW also passes the length of the well-formed structure at the start of the input
// (-1 when the input is not known to start with one).
func forInputsW(c *Ctx, p *Parser, nWell, nMut, nRaw int, f func(input []byte, extra [][]byte, kind string, wlen int)) {
	r := c.R
	// systematic inputs: input classes that random generation reaches too rarely
	for _, w := range systematicInputs(p, r) {
		var extra [][]byte
		if p.Extra != nil {
			extra = p.Extra(r)
		}
		f(w, extra, "systematic", -1)
		f(cat(w, r.Bytes(1+r.Intn(8))), extra, "systematic", -1)
	}
	for i := 0; i < nWell; i++ {
		w := p.Gen(r)
		var extra [][]byte
		if p.Extra != nil {
			extra = p.Extra(r)
		}
		f(w, extra, "wellformed", len(w))
		f(cat(w, r.Bytes(1+r.Intn(40))), extra, "appended", len(w))
		if i < 2 || (c.Tier == "thorough" && i < 12) {
			// a tail longer than any 16-bit length field can describe (a netDb file, a stream)
			f(cat(w, r.Bytes(65530+r.Intn(70000))), extra, "appended", len(w))
		}
		if len(w) > 0 {
			f(w[:r.Intn(len(w))], extra, "truncated", -1)
		}
		for k := 0; k < nMut; k++ {
			m := mutateFields(r, w)
			if r.Intn(3) == 0 {
				m = cat(m, r.Bytes(r.Intn(600)))
			}
			f(m, extra, "mutated", -1)
		}
	}
	for i := 0; i < nRaw; i++ {
		var extra [][]byte
		if p.Extra != nil {
			extra = p.Extra(r)
		}
		n := r.Intn(700)
		if r.Intn(4) == 0 {
			n = r.Intn(12)
		}
		b := r.Bytes(n)
		if n > 390 && r.Bool() {
			b[384] = []byte{0, 5}[r.Intn(2)]
			b[385] = 0
			b[386] = byte(r.Intn(12))
		}
		f(b, extra, "raw", -1)
	}
}

// systematicInputs enumerates, per parser, classes of unusual-but-legal (or near-legal) inputs:
//   - identities: EVERY pair of known signing/crypto type codes (supported or not) plus unknown
//     codes, with and without excess key-certificate payload;
//   - mappings: every declared size 0..8 with that many (and fewer, and more) bytes following;
//   - RouterInfo: a non-zero peer_size followed by that many 32-byte hashes (the
//     specification's layout) before the options.
// retargeted: a well-formed encoding in which one two-byte field is rewritten so that, read as a
// length, it reaches to exactly k bytes before the end of the input (k = 0..9): the nested
// structure swallows almost everything and the fields after it have 0..9 bytes left
func retargeted(w []byte, r *Rng) [][]byte {
	var out [][]byte
	if len(w) < 4 || len(w) > 60000 {
		return out
	}
	offs := map[int]bool{}
	for i := 0; i < 16 && i+2 <= len(w); i++ {
		offs[i] = true
	}
	for i := 383; i < 400 && i+2 <= len(w); i++ {
		offs[i] = true
	}
	for k := 0; k < 12; k++ {
		offs[r.Intn(len(w)-1)] = true
	}
	for i := range offs {
		for _, k := range []int{0, 1, 2, 7, 8, 9} {
			v := len(w) - i - 2 - k
			if v < 0 || v > 65535 {
				continue
			}
			m := cp(w)
			m[i], m[i+1] = byte(v>>8), byte(v)
			out = append(out, m)
		}
	}
	return out
}

// extremes: a well-formed encoding in which the two bytes at EVERY offset after the fixed-size key
// block (and in the first 16 bytes) are in turn set to the largest values a 16-bit field can hold
// (0xFFFF, 0xFFFE, 0x8000): a length or count field at its maximum, where "+1" wraps and
// "as a signed number" flips
func extremes(w []byte) [][]byte {
	var out [][]byte
	if len(w) < 4 || len(w) > 4000 {
		return out
	}
	lo := 384
	if len(w) < 400 {
		lo = 0
	}
	for i := 0; i+2 <= len(w); i++ {
		if i >= 16 && i < lo {
			continue
		}
		span, vals := 160, []int{0xffff}
		if thoroughTier {
			span, vals = 420, []int{0xffff, 0xfffe, 0x8000}
		}
		if i > lo+span {
			break
		}
		for _, v := range vals {
			m := cp(w)
			m[i], m[i+1] = byte(v>>8), byte(v)
			out = append(out, m)
		}
	}
	return out
}

func systematicInputs(p *Parser, r *Rng) [][]byte {
	var out [][]byte
	if p.Gen != nil {
		w := p.Gen(r)
		out = append(out, retargeted(w, r)...)
		out = append(out, extremes(w)...)
		if p.MinSizeGuard > 0 && len(w) < p.MinSizeGuard+20 {
			out = append(out, extremes(cat(w, r.Bytes(p.MinSizeGuard+20-len(w))))...)
		}
		if p.MinSizeGuard > 0 && len(w) < p.MinSizeGuard+20 {
			out = append(out, retargeted(cat(w, r.Bytes(p.MinSizeGuard+20-len(w))), r)...)
		}
	}
	switch p.Name {
	case "ReadKeysAndCert", "ReadDestination", "ReadRouterIdentity", "ReadKeysAndCertElgAndEd25519", "ReadKeysAndCertX25519AndEd25519":
		for _, s := range []int{0, 1, 2, 3, 4, 5, 6, 7, 8, 9, 11, 12, 65280} {
			for _, cr := range []int{0, 1, 2, 3, 4, 5, 6, 7, 8, 65280} {
				id := genIdentTypes(r, s, cr, false)
				out = append(out, id.Encode())
			}
		}
	case "ReadMapping":
		for size := 0; size <= 8; size++ {
			for _, have := range []int{size, size - 1, size + 3} {
				if have < 0 {
					continue
				}
				out = append(out, cat(u16(size), r.Bytes(have)))
			}
			// a syntactically plausible body of exactly that size
			body := []byte{1, 'k', '=', 1, 'v', ';', 0, '='}
			out = append(out, cat(u16(size), body[:size]))
		}
	case "ReadRouterInfo":
		for n := 1; n <= 2; n++ {
			ri := genRouterInfo(r)
			ri.PeerSize, ri.PeerHashes = n, r.Bytes(32*n)
			out = append(out, ri.Encode())
		}
		// every small combination of address count, peer count and option count
		for na := 0; na <= 3; na++ {
			for np := 0; np <= 1; np++ {
				for no := 0; no <= 2; no++ {
					ri := genRouterInfo(r)
					ri.Addrs = nil
					for i := 0; i < na; i++ {
						ri.Addrs = append(ri.Addrs, genRouterAddr(r))
					}
					ri.PeerSize, ri.PeerHashes = np, r.Bytes(32*np)
					ri.Opts = sysKVs(r, no)
					out = append(out, ri.Encode())
				}
			}
		}
	case "ReadRouterAddress":
		for _, size := range []int{1, 2, 3, 4, 5} {
			out = append(out, cat([]byte{5}, make([]byte, 8), []byte{1, 'x'}, u16(size), r.Bytes(size)))
		}
		// every style length 0..8 and 255, every option count 0..3, zero and non-zero date
		for _, sl := range []int{0, 1, 2, 3, 4, 5, 6, 7, 8, 255} {
			for no := 0; no <= 3; no++ {
				a := RouterAddrV{Cost: r.Intn(256), Style: r.Bytes(sl), Opts: sysKVs(r, no)}
				if (sl+no)%2 == 1 {
					a.Date = r.U64()
				}
				out = append(out, a.Encode())
			}
		}
	case "ReadLeaseSet":
		// every lease count 0..3 and 15..17 for every supported signing type
		for _, s := range libSigSupported {
			for _, n := range []int{0, 1, 2, 3, 15, 16, 17} {
				ls := genLeaseSet(r)
				ls.Dest = genIdentTypes(r, s, 0, false)
				ls.Spk = r.Bytes(specSigPubLen[s])
				ls.Sig = r.Bytes(specSigLen[s])
				ls.Leases = nil
				for i := 0; i < n; i++ {
					ls.Leases = append(ls.Leases, genLease(r))
				}
				out = append(out, ls.Encode())
			}
		}
	case "ReadLeaseSet2":
		// offline block absent/present x option count 0..2 x key count 0..3 x lease count 0..2 (and the limits)
		for off := 0; off <= 1; off++ {
			for no := 0; no <= 2; no++ {
				for _, nk := range []int{0, 1, 2, 3, 16, 17} {
					for _, nl := range []int{0, 1, 2, 16, 17} {
						l := LeaseSet2V{H: sysHeader(r, off == 1, no)}
						for i := 0; i < nk; i++ {
							l.Keys = append(l.Keys, genEncKey(r))
						}
						for i := 0; i < nl; i++ {
							l.Leases = append(l.Leases, genLease2(r))
						}
						l.Sig = r.Bytes(l.H.FinalSigLen())
						out = append(out, l.Encode())
					}
				}
			}
		}
		// every known encryption key type with its own length, one shorter and one longer
		for _, t := range []int{0, 1, 2, 3, 4, 5, 6, 7, 8, 255, 65280} {
			n, ok := specCryptoLen[t]
			if !ok {
				n = 16
			}
			for _, d := range []int{-1, 0, 1} {
				l := LeaseSet2V{H: sysHeader(r, false, 0), Keys: []EncKey{{t, r.Bytes(n + d)}}, Leases: [][]byte{genLease2(r)}}
				l.Sig = r.Bytes(l.H.FinalSigLen())
				out = append(out, l.Encode())
			}
		}
	case "ReadMetaLeaseSet":
		for off := 0; off <= 1; off++ {
			for no := 0; no <= 2; no++ {
				for _, ne := range []int{0, 1, 2, 3, 16, 17} {
					for np := 0; np <= 2; np++ {
						m := MetaLeaseSetV{H: sysHeader(r, off == 1, no)}
						for i := 0; i < ne; i++ {
							m.Entries = append(m.Entries, MetaEntry{r.Bytes(32), []int{0, 1, 3, 5, 7, 255}[(i+np)%6], uint32(r.U64()), r.Intn(256), sysKVs(r, np)})
						}
						m.Sig = r.Bytes(m.H.FinalSigLen())
						out = append(out, m.Encode())
					}
				}
			}
		}
	case "ReadEncryptedLeaseSet":
		// every known blinded-key type x offline block absent / present with every transient type
		// x inner length at and around the minimum
		for _, bt := range []int{0, 1, 2, 3, 4, 5, 6, 7, 8, 11} {
			for _, tt := range []int{-1, 0, 1, 2, 3, 4, 5, 6, 7, 8, 11} {
				for _, il := range []int{60, 61, 62} {
					e := EncLSV{SigType: bt, Key: r.Bytes(specSigPubLen[bt]), Published: uint32(r.U64()), Expires: 1 + uint16(r.U64()%65535), Inner: r.Bytes(il)}
					fl := specSigLen[bt]
					if tt >= 0 {
						e.Offline = &Offline{Expires: 4000000000, SigType: tt, Key: r.Bytes(specSigPubLen[tt]), Sig: r.Bytes(specSigLen[bt])}
						e.Flags = 1
						fl = specSigLen[tt]
					}
					e.Sig = r.Bytes(fl)
					out = append(out, e.Encode())
				}
			}
		}
	case "ReadOfflineSignature":
		// every transient type, known or not, with the key length the tables give it
		for _, tt := range []int{0, 1, 2, 3, 4, 5, 6, 7, 8, 9, 10, 11, 12, 65280} {
			kl, ok := specSigPubLen[tt]
			if !ok {
				kl = 32
			}
			for _, exp := range []uint32{0, 1, 0x7fffffff, 0x80000000, 0xffffffff} {
				out = append(out, cat(u32(exp), u16(tt), r.Bytes(kl), r.Bytes(132)))
			}
		}
	case "ReadCertificate":
		// every type 0..7 and 255 with every declared length 0..8, that many (and one fewer) bytes
		for _, t := range []int{0, 1, 2, 3, 4, 5, 6, 7, 255} {
			for n := 0; n <= 8; n++ {
				out = append(out, cat([]byte{byte(t)}, u16(n), r.Bytes(n)))
				if n > 0 {
					out = append(out, cat([]byte{byte(t)}, u16(n), r.Bytes(n-1)))
				}
			}
		}
	case "NewKeyCertificate":
		for _, sg := range []int{0, 1, 2, 3, 4, 5, 6, 7, 8, 9, 11, 12, 65280} {
			for _, cr := range []int{0, 1, 2, 3, 4, 5, 6, 7, 8, 65280} {
				for _, extra := range []int{0, 1, 9} {
					out = append(out, cat([]byte{5}, u16(4+extra), u16(sg), u16(cr), r.Bytes(extra)))
				}
			}
		}
		for n := 0; n <= 4; n++ { // payload shorter than the two type fields
			out = append(out, cat([]byte{5}, u16(n), r.Bytes(n)))
		}
	case "ReadI2PString":
		for _, n := range []int{0, 1, 2, 127, 128, 254, 255} {
			out = append(out, cat([]byte{byte(n)}, r.Bytes(n)))
			if n > 0 {
				out = append(out, cat([]byte{byte(n)}, r.Bytes(n-1)))
			}
		}
	}
	return out
}

// sysKVs: n distinct short pairs in arbitrary wire order
func sysKVs(r *Rng, n int) []KV {
	var kvs []KV
	for i := 0; i < n; i++ {
		kvs = append(kvs, KV{[]byte{byte('a' + (7*i+n)%26), byte('0' + i)}, r.Bytes(r.Intn(3))})
	}
	return kvs
}

// sysHeader: a LeaseSet2-family header with the given offline block presence and option count
func sysHeader(r *Rng, off bool, nOpts int) LS2Header {
	h := LS2Header{Dest: genDestIdent(r), Published: uint32(r.U64() >> 33), Expires: uint16(r.U64()), Options: sysKVs(r, nOpts)}
	if off {
		o := genOffline(r, h.Dest.SigType)
		h.Offline = &o
		h.Flags = 1
	}
	return h
}

func runC01(c *Ctx) {
	// witnesses of the recorded finding D2 run first
	slackMap := []byte{0x00, 0x0a, 0x01, 'a', '=', 0x01, 'b', ';', 0xde, 0xad, 0xbe, 0xef}
	for i := range parsers {
		p := &parsers[i]
		if p.Name == "ReadMapping" {
			res := runParser(c, p, slackMap, nil)
			c01Oracle(c, p, slackMap, nil, res)
		}
	}
	for i := range parsers {
		p := &parsers[i]
		forInputs(c, p, c.N(60, 2500), 4, c.N(40, 1500), func(input []byte, extra [][]byte, kind string) {
			res := runParser(c, p, input, extra)
			c01Oracle(c, p, input, extra, res)
		})
	}
}
