package main

// DSA-SHA1 with the I2P parameter set, through Go's crypto/dsa: lets the harness build structures
// that are AUTHENTIC under a legacy DSA identity (NULL-certificate destinations, KEY certificates
// declaring signing type 0) and check signatures over the raw received bytes independently of the
// library's own DSA code.

import (
	"crypto/dsa"
	"crypto/sha1"
	"math/big"
)

func hexBig(s string) *big.Int { v, _ := new(big.Int).SetString(s, 16); return v }

// the parameters of the I2P specification (common structures, SigningPublicKey type DSA_SHA1)
var i2pDSA = dsa.Parameters{
	P: hexBig("9c05b2aa960d9b97b8931963c9cc9e8c3026e9b8ed92fad0a69cc886d5bf8015fcadae31a0ad18fab3f01b00a358de237655c4964afaa2b337e96ad316b9fb1cc564b5aec5b69a9ff6c3e4548707fef8503d91dd8602e867e6d35d2235c1869ce2479c3b9d5401de04e0727fb33d6511285d4cf29538d9e3b6051f5b22cc1c93"),
	Q: hexBig("a5dfc28fef4ca1e286744cd8eed9d29d684046b7"),
	G: hexBig("0c1f4d27d40093b429e962d7223824e0bbc47e7c832a39236fc683af84889581075ff9082ed32353d4374d7301cda1d23c431f4698599dda02451824ff369752593647cc3ddc197de985e43d136cdcfc6bd5409cd2f450821142a5e6f8eb1c3ab5d0484b8129fcf17bce4f7f33321c3cb3dbb14a905e7b2b3e93be4708cbcc82"),
}

type dsaKey struct {
	priv *dsa.PrivateKey
	x    []byte // 20 bytes
	pub  []byte // 128 bytes
}

func genDSA(r *Rng) dsaKey {
	x := new(big.Int).SetBytes(r.Bytes(20))
	qm1 := new(big.Int).Sub(i2pDSA.Q, big.NewInt(1))
	x.Mod(x, qm1)
	x.Add(x, big.NewInt(1))
	y := new(big.Int).Exp(i2pDSA.G, x, i2pDSA.P)
	k := dsaKey{priv: &dsa.PrivateKey{PublicKey: dsa.PublicKey{Parameters: i2pDSA, Y: y}, X: x}}
	k.x = make([]byte, 20)
	x.FillBytes(k.x)
	k.pub = make([]byte, 128)
	y.FillBytes(k.pub)
	return k
}

func dsaSign(r *Rng, k dsaKey, msg []byte) []byte {
	h := sha1.Sum(msg)
	// crypto/dsa reads, or does not read, one extra byte from its source at random
	// (randutil.MaybeReadByte): a forked stream keeps the main PRNG's consumption deterministic
	sub := &Rng{s: r.U64()}
	rr, ss, err := dsa.Sign(detRand{sub}, k.priv, h[:])
	if err != nil {
		return make([]byte, 40)
	}
	sig := make([]byte, 40)
	rr.FillBytes(sig[:20])
	ss.FillBytes(sig[20:])
	return sig
}

func dsaVerify(pub, msg, sig []byte) bool {
	if len(pub) != 128 || len(sig) != 40 {
		return false
	}
	y := new(big.Int).SetBytes(pub)
	h := sha1.Sum(msg)
	return dsa.Verify(&dsa.PublicKey{Parameters: i2pDSA, Y: y}, h[:], new(big.Int).SetBytes(sig[:20]), new(big.Int).SetBytes(sig[20:]))
}
