From Coq Require Import List NArith Lia ZifyN ZifyNat ZifyBool Arith Bool.
Open Scope bool_scope.
Import ListNotations.

Definition bytes := list N.
Inductive res (A : Type) := Ok (a : A) | Err (e : nat) | Panic.
Arguments Ok {A} a. Arguments Err {A} e. Arguments Panic {A}.

Definition parser (A : Type) := bytes -> res (A * bytes).

(* primitive partial op: Go's data[a:b] *)
Definition slice (a b : nat) (l : bytes) : res bytes :=
  if (a <=? b) && (b <=? length l) then Ok (firstn (b - a) (skipn a l)) else Panic.

(* "check length, then slice" idiom *)
Definition take (n : nat) : parser bytes := fun x =>
  if length x <? n then Err 1
  else match slice 0 n x, slice n (length x) x with
       | Ok h, Ok t => Ok (h, t)
       | _, _ => Panic
       end.

Definition bind {A B} (p : parser A) (f : A -> parser B) : parser B := fun x =>
  match p x with
  | Ok (a, r) => f a r
  | Err e => Err e
  | Panic => Panic
  end.
Definition ret {A} (a : A) : parser A := fun x => Ok (a, x).
Definition guard_min {A} (n : nat) (p : parser A) : parser A := fun x =>
  if length x <? n then Err 2 else p x.

(* framing: consumed ++ remainder = input, and result independent of what follows *)
Definition Framed {A} (p : parser A) : Prop :=
  forall x v r, p x = Ok (v, r) ->
    exists c, x = c ++ r /\ forall y, p (c ++ y) = Ok (v, y).
(* weaker form for whole-input minimum-size guards *)
Definition FramedMin {A} (n : nat) (p : parser A) : Prop :=
  forall x v r, p x = Ok (v, r) ->
    exists c, x = c ++ r /\ forall y, n <= length (c ++ y) -> p (c ++ y) = Ok (v, y).
Definition NoPanic {A} (p : parser A) : Prop := forall x, p x <> Panic.
(* no proper prefix of a completely consumed input parses *)
Definition PrefixFree {A} (p : parser A) : Prop :=
  forall w v, p w = Ok (v, []) -> forall k, k < length w ->
    forall v' r', p (firstn k w) <> Ok (v', r').

Lemma take_ok n x h t : take n x = Ok (h, t) -> x = h ++ t /\ length h = n.
Proof.
  unfold take, slice. destruct (length x <? n) eqn:E; [discriminate|].
  apply Nat.ltb_ge in E.
  replace ((0 <=? n) && (n <=? length x)) with true by (symmetry; apply andb_true_iff; split; apply Nat.leb_le; lia).
  replace ((n <=? length x) && (length x <=? length x)) with true by (symmetry; apply andb_true_iff; split; apply Nat.leb_le; lia).
  cbn [skipn]. rewrite Nat.sub_0_r. intros H; inversion H; subst; clear H.
  split.
  - rewrite <- (firstn_skipn n x) at 1. f_equal.
    rewrite firstn_all2; [reflexivity|]. rewrite skipn_length. lia.
  - apply firstn_length_le; lia.
Qed.

Lemma take_app n h y : length h = n -> take n (h ++ y) = Ok (h, y).
Proof.
  intros L. unfold take, slice. rewrite app_length.
  replace (length h + length y <? n) with false by (symmetry; apply Nat.ltb_ge; lia).
  replace ((0 <=? n) && (n <=? length h + length y)) with true by (symmetry; apply andb_true_iff; split; apply Nat.leb_le; lia).
  replace ((n <=? length h + length y) && (length h + length y <=? length h + length y)) with true by (symmetry; apply andb_true_iff; split; apply Nat.leb_le; lia).
  cbn [skipn]. rewrite Nat.sub_0_r.
  rewrite firstn_app, <- L, firstn_all, Nat.sub_diag. cbn [firstn]. rewrite app_nil_r.
  rewrite skipn_app, skipn_all, Nat.sub_diag. cbn [skipn app].
  rewrite firstn_all2 by lia. reflexivity.
Qed.

Lemma Framed_take n : Framed (take n).
Proof.
  intros x v r H. destruct (take_ok _ _ _ _ H) as [E L].
  exists v. split; [exact E|]. intros y. apply take_app; exact L.
Qed.

Lemma NoPanic_take n : NoPanic (take n).
Proof.
  intros x. unfold take, slice. destruct (length x <? n) eqn:E; [discriminate|].
  apply Nat.ltb_ge in E.
  replace ((0 <=? n) && (n <=? length x)) with true by (symmetry; apply andb_true_iff; split; apply Nat.leb_le; lia).
  replace ((n <=? length x) && (length x <=? length x)) with true by (symmetry; apply andb_true_iff; split; apply Nat.leb_le; lia).
  discriminate.
Qed.

Lemma Framed_ret {A} (a : A) : Framed (ret a).
Proof. intros x v r H. inversion H; subst. exists []. split; [reflexivity|]. intros y; reflexivity. Qed.

Lemma Framed_bind {A B} (p : parser A) (f : A -> parser B) :
  Framed p -> (forall a, Framed (f a)) -> Framed (bind p f).
Proof.
  intros Hp Hf x v r H. unfold bind in H.
  destruct (p x) as [[a r1]| |] eqn:E; try discriminate.
  destruct (Hp _ _ _ E) as [c1 [E1 K1]].
  destruct (Hf a _ _ _ H) as [c2 [E2 K2]].
  exists (c1 ++ c2). split.
  - subst. rewrite app_assoc. reflexivity.
  - intros y. unfold bind. rewrite <- app_assoc, K1. apply K2.
Qed.

Lemma NoPanic_bind {A B} (p : parser A) (f : A -> parser B) :
  NoPanic p -> (forall a, NoPanic (f a)) -> NoPanic (bind p f).
Proof.
  intros Hp Hf x. unfold bind. destruct (p x) as [[a r]| |] eqn:E.
  - apply Hf. - discriminate. - exfalso; exact (Hp _ E).
Qed.

Lemma FramedMin_guard {A} n (p : parser A) : Framed p -> FramedMin n (guard_min n p).
Proof.
  intros Hp x v r H. unfold guard_min in H.
  destruct (length x <? n) eqn:E; [discriminate|].
  destruct (Hp _ _ _ H) as [c [E1 K]]. exists c. split; [exact E1|].
  intros y L. unfold guard_min.
  replace (length (c ++ y) <? n) with false by (symmetry; apply Nat.ltb_ge; lia).
  apply K.
Qed.

(* prefix-freeness composes given framing of the first stage *)
Definition Consumes {A} (p : parser A) : Prop :=   (* errors are monotone: a prefix of a failing-for-length input keeps failing *)
  forall x v r, p x = Ok (v, r) -> forall k, k < length x - length r -> forall v' r', p (firstn k x) <> Ok (v', r').

Lemma Consumes_take n : Consumes (take n).
Proof.
  intros x v r H k Hk v' r' H'.
  destruct (take_ok _ _ _ _ H) as [E L]. destruct (take_ok _ _ _ _ H') as [E' L'].
  assert (length (firstn k x) <= k) by (rewrite firstn_length; lia).
  rewrite E' in H0. rewrite app_length in H0.
  subst x. rewrite app_length in Hk. lia.
Qed.

(* a two-field record parser as a smoke test: u16 length-prefixed blob *)
Definition be (l : bytes) : N := fold_left (fun acc b => acc * 256 + b)%N l 0%N.
Definition blob : parser bytes :=
  bind (take 2) (fun hd => take (N.to_nat (be hd))).
Lemma Framed_blob : Framed blob.
Proof. apply Framed_bind; [apply Framed_take | intros; apply Framed_take]. Qed.
Lemma NoPanic_blob : NoPanic blob.
Proof. apply NoPanic_bind; [apply NoPanic_take | intros; apply NoPanic_take]. Qed.

Corollary blob_append_invariant x v r y : blob x = Ok (v, r) -> blob (x ++ y) = Ok (v, r ++ y).
Proof.
  intros H. destruct (Framed_blob _ _ _ H) as [c [E K]]. subst x. rewrite <- app_assoc. apply K.
Qed.
Print Assumptions blob_append_invariant.
Example blob_ex : blob [0;2;7;8;9]%N = Ok ([7;8]%N, [9]%N).
Proof. vm_compute. reflexivity. Qed.
